"""C05 — one vertex per distinct point; duplicates only across merged patches (DESIGN.md section 4, C05)."""

from __future__ import annotations

import warnings
from typing import Any, Dict, List, Tuple

import numpy as np
from hypothesis import strategies as st

from vf import lattice as lt
from vf import x_sides as xs
from vf.core import Cell, Ctx, Violation
from vf.foamdict import FoamParseError
from vf.refmodel import rodrigues

warnings.simplefilter("ignore")

import classy_blocks as cb  # noqa: E402

TOL = 1e-7  # the library's documented merge tolerance (constants.TOL); the generator keeps a 2.5x margin on both sides
# varied names: with the pinned hash seed the iteration order of a set of two of them is alphabetical for some pairs
# and not for others (a sorting slip in the patch key only shows for the latter)
POOL = ["inlet", "outlet", "walls", "top", "atmosphere", "cyc_half0", "cyc_half1", "rotor", "stator", "AMI1", "AMI2",
        "sym", "z_far", "b", "a1", "Master"]

RULE = (
    "Assemblies of <= 8 Lofts cut from a node lattice (24 corner numberings, random insertion order), patch names from "
    "a pool of 16 (4 per case) on random sides, 0-2 master/slave pairs (structured cells put master/slave on the two sides of "
    "internal faces, incl. several pairs at one node; the edge cell stacks two blocks on the slave side of two pairs "
    "along the edge where the pairs meet); about 2/3 of the assemblies are moved 1e3..2e6 away from the origin; tolerance cell: per-corner jitter of norm <= 0.2*TOL (must "
    "merge) and per-node near-miss displacement of 3..8*TOL (must not merge). The partition of (operation, corner) "
    "into vertices read from Block.indexes is compared with the reference partition by (position class, set of slave "
    "patches at the corner) built from the lattice bookkeeping, and with the partition of a second insertion order. "
    "Non-trivial: >= 2 operations sharing >= 1 node; distinct = distinct generated case."
)
ASSUMPTIONS = [
    "merge tolerance is TOL = 1e-7 (Euclidean); generated coincident corners are <= 0.4*TOL apart, distinct ones "
    ">= 2.6*TOL apart, at most one near-miss class per node (no chains)",
    "asserted: different position class -> different vertex; same class and same slave-patch set -> same vertex; a "
    "corner carrying the master of a pair (and not its slave) never shares a vertex with a corner carrying the slave; "
    "other combinations (empty vs non-empty slave set without master, two different non-empty slave sets, a corner "
    "carrying both master and slave of one pair) are counted, not judged, except that they must not depend on the "
    "insertion order",
    "operations may be built elsewhere with their patches and moved into place by translate / rotate / mirror (also on "
    "a copy); a patch stays on the image of the face it was put on (Operation.mirror swaps bottom and top face, so the "
    "image's corner (j+4)%8 is the source's corner j); positions then agree to rounding (<= 1e-8 at 4e6 from the origin)",
    "an operation may be source.copy() with its points moved to another cell (Face.update): it starts with the patches "
    "the source carried when the copy was taken, later set_patch calls concern only the operation they are made on; or "
    "cb.Extrude(source.get_face(side), width) on a regular lattice: it carries only the patches set on itself (its "
    "corner numbering is read off operation.point_array)",
    "a patch name is never master in one pair and slave in another; in the first run every pair is declared before "
    "assemble(); the second run follows a drawn history (pairs / operations declared after a first assemble(), then "
    "clear()+assemble() or backport(); or a patch_list.is_slave() query before the pairs) and must give the partition "
    "of the final declaration set",
    "file cell: every operation is chopped count=1 in all directions so that write() succeeds",
]


# --------------------------------------------------------------------------------------------------
# generator


def _internal_faces(dims, cells) -> List[Tuple[int, int, int]]:
    """(cell a, cell b, axis): b is the +axis neighbour of a, both selected"""
    sel = set(cells)
    out = []
    for c in sorted(sel):
        ijk = lt.cell_ijk(dims, c)
        for a in range(3):
            n = list(ijk)
            n[a] += 1
            if n[a] < dims[a]:
                d = lt.cell_index(dims, *n)
                if d in sel:
                    out.append((c, d, a))
    return out


_DIRS = [[1.0, 0.0, 0.0], [0.0, 1.0, 0.0], [0.0, 0.0, 1.0], [0.6, 0.8, 0.0], [0.0, -0.6, 0.8], [0.48, 0.6, -0.64]]


def _pre(draw, case, mode: str) -> List[Dict[str, Any]]:
    """How each operation comes into being:
      none / translate / rotate / mirror : built in place, or built elsewhere WITH its patches and then moved there (one
          half of a model built with all patches, the other half obtained by op.copy().mirror(...)); `origin` is
          relative to the assembly's offset;
      copy-of : source.copy() taken after the first `at` set_patch statements of the source, its eight points then
          moved to the target cell (Face.update); what is declared on either of them afterwards concerns only that one;
      chain   : cb.Extrude(source.get_face(side towards the target cell), width) taken after the first `at` set_patch
          statements of the face-adjacent source (regular lattices only)."""
    cells, dims = case["cells"], case["dims"]
    k = len(cells)
    out: List[Dict[str, Any]] = []
    for _ in range(k):
        kind = draw(st.sampled_from(["none", "none", "none", "translate", "rotate", "mirror", "mirror"]))
        pre: Dict[str, Any] = {"kind": kind}
        if kind == "translate":
            pre["d"] = [draw(st.floats(-5.0, 5.0)) for _ in range(3)]
        elif kind != "none":
            pre["axis"] = draw(st.sampled_from(_DIRS))
            pre["origin"] = [draw(st.floats(-2.0, 2.0)) for _ in range(3)]
            pre["copy"] = draw(st.booleans())
            if kind == "rotate":
                pre["angle"] = draw(st.floats(-3.0, 3.0))
        out.append(pre)
    nstm = [sum(1 for p in case["patches"] if p[0] == oi) for oi in range(k)]
    regular = not case.get("jitter") and mode != "tolerance"
    sources: set = set()
    for _ in range(draw(st.integers(0, 3))):
        oi = draw(st.integers(0, k - 1))
        if oi in sources or out[oi]["kind"] in ("copy-of", "chain"):
            continue
        kind = draw(st.sampled_from(["copy-of", "chain", "chain"])) if regular else "copy-of"
        cand = [j for j in range(k) if j != oi and out[j]["kind"] == "none"]
        if kind == "chain":
            near = {a if b == cells[oi] else b for a, b, _ in _internal_faces(dims, cells) if cells[oi] in (a, b)}
            cand = [j for j in cand if cells[j] in near]
        if not cand:
            continue
        j = draw(st.sampled_from(cand))
        at = nstm[j] if kind == "chain" and draw(st.booleans()) else draw(st.integers(0, nstm[j]))
        out[oi] = {"kind": kind, "src": j, "at": at}
        sources.add(j)
    return out


def _history(draw, k: int, npairs: int) -> Dict[str, Any]:
    """Order of API calls for the second assembly of a case: which pairs / operations are declared only after a first
    assemble(), and how the mesh is then re-assembled.  The declared model (final set of pairs and operations) is the same."""
    kind = draw(st.sampled_from(["none", "none", "late-pairs", "late-pairs", "late-pairs+ops", "query-first"]))
    if kind == "none":
        return {"kind": kind}
    if kind == "query-first":
        return {"kind": kind, "query": draw(st.sampled_from(POOL))}
    return {
        "kind": kind,
        "pairs_before": draw(st.integers(0, max(0, npairs - 1))),
        "ops_before": draw(st.integers(1, k - 1)) if kind == "late-pairs+ops" and k >= 2 else k,
        "reassemble": draw(st.sampled_from(["clear+assemble", "backport"])),
    }


def _far_away(draw, case, mode: str) -> None:
    """models far from the origin (geo-referenced coordinates): the merge distance must not grow with the coordinates"""
    size = draw(st.sampled_from([0.0, 0.0, 0.0, 1e3, 1e5] + ([2e6] if mode != "tolerance" else [1e5])))
    if size:
        off = [size * draw(st.sampled_from([1.0, 0.0, -1.0, 2.1])) for _ in range(3)]
        if any(off):
            case["offset"] = off


@st.composite
def edge_case(draw):
    """Two merged pairs meet along a lattice edge; the blocks on the slave side of both are stacked along that edge,
    so the corners on it carry two slave patches and are shared by two slave-side blocks."""
    c_ax = draw(st.integers(0, 2))
    a_ax, b_ax = [x for x in range(3) if x != c_ax]
    if draw(st.booleans()):
        a_ax, b_ax = b_ax, a_ax
    dims = [2, 2, 2]
    qa, qb = draw(st.integers(0, 1)), draw(st.integers(0, 1))  # column of the blocks on the slave side of both pairs
    with_fourth = draw(st.booleans())

    def cell(ia, ib, ic):
        ijk = [0, 0, 0]
        ijk[a_ax], ijk[b_ax], ijk[c_ax] = ia, ib, ic
        return lt.cell_index(dims, *ijk)

    cols = [(qa, qb), (1 - qa, qb), (qa, 1 - qb)] + ([(1 - qa, 1 - qb)] if with_fourth else [])
    cells = [cell(ia, ib, ic) for ic in (0, 1) for ia, ib in cols]
    cells = list(draw(st.permutations(cells)))
    names = list(draw(st.lists(st.sampled_from(POOL), min_size=4, max_size=4, unique=True)))
    m1, s1, m2, s2 = names
    if draw(st.integers(0, 3)) == 0:
        m2 = m1  # one master patch, two slaves
    pairs = [[m1, s1], [m2, s2]]
    patches: List[List[Any]] = []
    for ic in (0, 1):
        q, a, b = cell(qa, qb, ic), cell(1 - qa, qb, ic), cell(qa, 1 - qb, ic)
        patches += [[cells.index(q), 2 * a_ax + (1 - qa), s1], [cells.index(a), 2 * a_ax + qa, m1],
                    [cells.index(q), 2 * b_ax + (1 - qb), s2], [cells.index(b), 2 * b_ax + qb, m2]]
    patches = list(draw(st.permutations(patches)))
    k = len(cells)
    for _ in range(draw(st.integers(0, 2))):
        patches.append([draw(st.integers(0, k - 1)), draw(st.integers(0, 5)), draw(st.sampled_from(names))])
    case = {"dims": dims, "widths": [[10.0 ** draw(st.floats(-0.5, 0.5)) for _ in range(2)] for _ in range(3)], "jitter": [],
            "cells": cells, "orient": [draw(st.integers(0, 23)) for _ in cells]}
    _far_away(draw, case, "edge")
    case.update(pairs=pairs, patches=patches, merge_first=draw(st.booleans()),
                order2=list(draw(st.permutations(list(range(k))))), jit=[], miss=[], mode="edge",
                history=_history(draw, k, len(pairs)))
    case["pre"] = _pre(draw, case, "edge")
    return case


@st.composite
def c05_case(draw, mode: str):
    case = draw(lt.lattice(min_cells=2, max_cells=8, jitter="maybe"))
    case = {key: case[key] for key in ("dims", "widths", "jitter", "cells", "orient")}  # geometry only
    cells = case["cells"]
    k = len(cells)
    names = list(draw(st.lists(st.sampled_from(POOL), min_size=4, max_size=4, unique=True)))
    npairs = draw(st.integers(1, 2)) if mode == "structured" else draw(st.integers(0, 2))
    alias: List[List[Any]] = []
    if mode == "aliasing":
        # three slave patches of which one is *named* like the other two joined ("a" + "_" + "b" = "a_b"): patch names
        # are arbitrary words, a corner carrying {a, b} and a corner carrying {a_b} are different sets (seeded C05_12)
        m, s1, s2, m3 = names
        s3 = draw(st.sampled_from(["_", "", "-", ".", ","])).join(sorted([s1, s2]))
        names = [m, s1, s2, s3, m3]
        pairs = [[m, s1], [m, s2], [m3, s3]]  # s3 has a master of its own: a corner with m and s3 is not self-merged
        faces = list(_internal_faces(case["dims"], cells))
        a, b, ax = faces[draw(st.integers(0, len(faces) - 1))] if faces else (cells[0], cells[0], 0)
        if faces and draw(st.integers(0, 3)):
            lo, hi = cells.index(a), cells.index(b)
            g = draw(st.sampled_from([x for x in range(6) if x // 2 != ax]))
            # lo | hi is the merged interface (slave s1 | master m); along one of its edges lo also carries slave s2 and
            # hi carries slave s3: hi's corners there are on the master side of (m, s1) and must stay apart from lo's
            alias = [[lo, 2 * ax + 1, s1], [lo, g, s2], [hi, 2 * ax, m], [hi, g, s3]]
            if draw(st.booleans()):
                alias = [[hi, 2 * ax, s1], [hi, g, s2], [lo, 2 * ax + 1, m], [lo, g, s3]]
    elif npairs == 0:
        pairs: List[List[str]] = []
    elif npairs == 1:
        pairs = [[names[0], names[1]]]
    else:
        shape = draw(st.sampled_from(["disjoint", "one-master", "one-slave"]))
        pairs = {
            "disjoint": [[names[0], names[1]], [names[2], names[3]]],
            "one-master": [[names[0], names[1]], [names[0], names[2]]],
            "one-slave": [[names[0], names[2]], [names[1], names[2]]],
        }[shape]
    patches: List[List[Any]] = []
    if mode == "structured":
        for a, b, ax in _internal_faces(case["dims"], cells):
            what = draw(st.integers(1, 3))
            if what < 2:
                continue
            m, s = pairs[draw(st.integers(0, len(pairs) - 1))]
            if what == 2:
                patches += [[cells.index(a), 2 * ax + 1, m], [cells.index(b), 2 * ax, s]]
            else:
                patches += [[cells.index(a), 2 * ax + 1, s], [cells.index(b), 2 * ax, m]]
    patches += alias
    paired = sorted({n for p in pairs for n in p})
    for _ in range(draw(st.integers(0, 3 if mode in ("structured", "aliasing") else 12))):
        name = draw(st.sampled_from(paired)) if paired and draw(st.booleans()) else draw(st.sampled_from(names))
        patches.append([draw(st.integers(0, k - 1)), draw(st.integers(0, 5)), name])
    case.pop("chops", None)
    _far_away(draw, case, mode)
    case.update(
        pairs=pairs,
        patches=patches,
        merge_first=draw(st.booleans()),
        order2=list(draw(st.permutations(list(range(k))))),
        jit=[],
        miss=[],
        mode=mode,
        history=_history(draw, k, len(pairs)),
    )
    case["pre"] = _pre(draw, case, mode)
    if mode == "tolerance":
        dims = case["dims"]
        users: Dict[int, List[List[int]]] = {}
        for oi, (c, rot) in enumerate(zip(cells, case["orient"])):
            nodes = lt.cell_nodes(dims, c)
            for i in range(8):
                users.setdefault(nodes[lt.ROT[rot][i]], []).append([oi, i])
        shared = sorted(n for n, u in users.items() if len(u) >= 2) or sorted(users)
        at_shared = [x for n in shared for x in users[n]]
        for _ in range(draw(st.integers(1, 10))):
            oi, i = draw(st.sampled_from(at_shared))
            case["jit"].append([oi, i, [draw(st.floats(-0.11, 0.11)) for _ in range(3)]])
        nmiss = draw(st.integers(0, min(3, len(shared))))
        for node in draw(st.lists(st.sampled_from(shared), min_size=nmiss, max_size=nmiss, unique=True)):
            u = users[node]
            mask = draw(st.integers(1, 2 ** len(u) - 1))
            off = [u[j] for j in range(len(u)) if mask >> j & 1]
            case["miss"].append({
                "node": node, "axis": draw(st.integers(0, 2)), "sign": draw(st.sampled_from([-1, 1])),
                "k": draw(st.floats(3.0, 8.0)), "off": off,
            })
    return case


# --------------------------------------------------------------------------------------------------
# reference (built from the lattice bookkeeping only)


class Ref:
    """per (operation, local corner): position class, patches touching it.
    perms[oi][i] = canonical corner of the lattice cell at which local corner i of operation oi sits."""

    def __init__(self, case, perms: List[Tuple[int, ...]]):
        dims = case["dims"]
        self.k = len(case["cells"])
        pres = case.get("pre") or [{"kind": "none"}] * self.k
        own: Dict[int, List[Tuple[int, str]]] = {oi: [] for oi in range(self.k)}
        for oi, g, name in case["patches"]:
            own[oi].append((g, name))
        self.final: Dict[Tuple[int, int], str] = {}
        for oi in range(self.k):
            seq: List[Tuple[int, str]] = []
            if pres[oi]["kind"] == "copy-of":
                # a copy starts with what its source carried when it was taken, on the same sides of its own numbering
                src = pres[oi]["src"]
                for g, name in own[src][: pres[oi]["at"]]:
                    seq.append((xs.global_side_of_perm(perms[oi], xs.side_name_of_perm(perms[src], g)), name))
            for g, name in seq + own[oi]:
                self.final[(oi, g)] = name  # set_patch overwrites
        self.masters = {m for m, _ in case["pairs"]}
        self.slaves = {s for _, s in case["pairs"]}
        off = {(oi, i): mi for mi, m in enumerate(case["miss"]) for oi, i in m["off"]}
        self.pclass: Dict[Tuple[int, int], Tuple[int, int]] = {}
        self.patches: Dict[Tuple[int, int], frozenset] = {}
        for oi, c in enumerate(case["cells"]):
            nodes = lt.cell_nodes(dims, c)
            perm = perms[oi]
            for i in range(8):
                q = perm[i]
                self.pclass[(oi, i)] = (nodes[q], 1 if (oi, i) in off else 0)
                self.patches[(oi, i)] = frozenset(
                    self.final[(oi, g)] for g in xs.sides_at_canon_corner(q) if (oi, g) in self.final
                )
        self.corners = sorted(self.pclass)
        self.pairs = [tuple(p) for p in case["pairs"]]

    def slave_set(self, x) -> frozenset:
        return self.patches[x] & self.slaves

    def self_merged(self, x) -> bool:
        return any(m in self.patches[x] and s in self.patches[x] for m, s in self.pairs)

    def master_vs_slave(self, x, y) -> bool:
        px, py = self.patches[x], self.patches[y]
        return any((m in px and s not in px and s in py) or (m in py and s not in py and s in px) for m, s in self.pairs)


def corner_positions(case) -> Dict[Tuple[int, int], np.ndarray]:
    dims = case["dims"]
    pos = lt.node_positions(case)
    out = {}
    for oi, (c, rot) in enumerate(zip(case["cells"], case["orient"])):
        nodes = lt.cell_nodes(dims, c)
        for i in range(8):
            out[(oi, i)] = pos[nodes[lt.ROT[rot][i]]].copy()
    for oi, i, d in case["jit"]:
        out[(oi, i)] = out[(oi, i)] + np.asarray(d) * TOL  # |d|_2 <= 0.11*sqrt(3) = 0.19
    for m in case["miss"]:
        shift = np.zeros(3)
        shift[m["axis"]] = m["sign"] * m["k"] * TOL
        for oi, i in m["off"]:
            out[(oi, i)] = out[(oi, i)] + shift
    return out


def _placed(case, oi: int, target: np.ndarray, chop: bool):
    """operation oi built in place or built elsewhere with its patches and moved so that corner i lies on target[i]"""
    pre = (case.get("pre") or [{"kind": "none"}] * len(case["orient"]))[oi]
    off = np.asarray(case.get("offset") or [0.0, 0.0, 0.0])
    if pre["kind"] == "translate":
        pts = target - np.asarray(pre["d"])
    elif pre["kind"] == "rotate":
        o = off + np.asarray(pre["origin"])
        pts = (target - o) @ rodrigues(pre["axis"], -pre["angle"]).T + o
    elif pre["kind"] == "mirror":
        # Operation.mirror reflects the points and swaps bottom and top face: corner j of the source becomes
        # corner (j + 4) % 8 of the image
        o, n = off + np.asarray(pre["origin"]), np.asarray(pre["axis"])
        image = target - 2.0 * np.outer((target - o) @ n, n)
        pts = np.array([image[(j + 4) % 8] for j in range(8)])
    else:
        pts = target
    op = cb.Loft(cb.Face(pts[:4]), cb.Face(pts[4:]))
    if chop:
        for ax in range(3):
            op.chop(ax, count=1)
    return op


def _moved(case, oi: int, op):
    pre = (case.get("pre") or [{"kind": "none"}] * len(case["orient"]))[oi]
    off = np.asarray(case.get("offset") or [0.0, 0.0, 0.0])
    if pre["kind"] not in ("translate", "rotate", "mirror"):
        return op
    src = op.copy() if pre.get("copy") else op
    if pre["kind"] == "translate":
        return src.translate(pre["d"])
    if pre["kind"] == "rotate":
        return src.rotate(pre["angle"], pre["axis"], list(off + np.asarray(pre["origin"])))
    return src.mirror(pre["axis"], list(off + np.asarray(pre["origin"])))


def make_ops(case, chop: bool = False):
    """The operations of the case, with their patches.  Returns (ops, perms, cpos): perms[oi][i] = canonical corner of
    the lattice cell under local corner i (drawn numbering; measured for chained blocks), cpos = corner positions."""
    k = len(case["orient"])
    pres = case.get("pre") or [{"kind": "none"}] * k
    perms: List[Any] = [tuple(lt.ROT[rot]) for rot in case["orient"]]
    cpos = corner_positions(case)
    own: Dict[int, List[Tuple[int, str]]] = {oi: [] for oi in range(k)}
    for oi, g, name in case["patches"]:
        own[oi].append((g, name))
    ops: List[Any] = [None] * k
    derived = [oi for oi in range(k) if pres[oi]["kind"] in ("copy-of", "chain")]
    pos = lt.node_positions(case)

    def declare(oi, stms):
        # patches are declared before an operation is moved; they belong to the (image of the) face they were put on:
        # a mirror image carries on its bottom what the source had on its top, the four lateral sides keep their names
        for g, name in stms:
            side = xs.side_name_of_perm(perms[oi], g)
            if pres[oi]["kind"] == "mirror":
                side = {"top": "bottom", "bottom": "top"}.get(side, side)
            ops[oi].set_patch(side, name)

    for oi in range(k):
        if oi in derived:
            continue
        target = np.array([cpos[(oi, i)] for i in range(8)])
        ops[oi] = _placed(case, oi, target, chop)
        children = sorted((pres[c]["at"], c) for c in derived if pres[c]["src"] == oi)
        done = 0
        for at, c in children:
            declare(oi, own[oi][done:at])
            done = at
            if pres[c]["kind"] == "copy-of":
                ops[c] = ops[oi].copy()
                tgt = np.array([cpos[(c, i)] for i in range(8)])
                ops[c].bottom_face.update(tgt[:4])
                ops[c].top_face.update(tgt[4:])
            else:
                ops[c], perms[c] = _chained(case, oi, c, ops[oi], perms[oi], pos, chop)
                for i in range(8):
                    cpos[(c, i)] = np.array(ops[c].point_array[i], dtype=float)
        declare(oi, own[oi][done:])
        ops[oi] = _moved(case, oi, ops[oi])
    for c in derived:
        declare(c, own[c])
    return ops, perms, cpos


def _chained(case, s: int, t: int, src, perm_s, pos, chop: bool):
    """cb.Extrude(src.get_face(side towards cell t), width): the next block of a chain.  Its corner numbering follows
    from the face it was started on; it is read off the positions of its corners."""
    dims = case["dims"]
    ns, nt = lt.cell_nodes(dims, case["cells"][s]), lt.cell_nodes(dims, case["cells"][t])
    shared = set(ns) & set(nt)
    g = [g for g in range(6) if {ns[q] for q in xs.canon_side_corners(g)} == shared][0]
    near = [q for q in range(8) if nt[q] in shared]
    across = [q for q in range(8) if sum(a != b for a, b in zip(lt.CANON[q], lt.CANON[near[0]])) == 1 and nt[q] not in shared]
    vector = pos[nt[across[0]]] - pos[nt[near[0]]]  # from the shared face to the far face of the target cell
    side = xs.side_name_of_perm(perm_s, g)
    face = src.get_face(side)
    if side in ("bottom", "left", "front"):
        face.invert()  # 'bottom, left and front faces must be inverted prior to using them for a loft/extrude'
    op = cb.Extrude(face, list(vector))
    if chop:
        for ax in range(3):
            op.chop(ax, count=1)
    pts = np.array(op.point_array, dtype=float)
    slack = 0.01 * min(min(w) for w in case["widths"])
    perm = []
    for i in range(8):
        hit = [q for q in range(8) if float(np.max(np.abs(pos[nt[q]] - pts[i]))) < slack]
        if len(hit) != 1:
            raise Violation("chained-block-off-target", f"corner {i} of the extruded block at {tuple(pts[i])} is not a corner of "
                            "the neighbouring lattice cell", **facts_of(case))
        perm.append(hit[0])
    if sorted(perm) != list(range(8)):
        raise Violation("chained-block-off-target", f"extruded block does not cover the neighbouring cell: {perm}", **facts_of(case))
    return op, tuple(perm)


def build(case, order: List[int], chop: bool = False, history: Any = None):
    """history None: everything is declared, nothing assembled yet.  Otherwise the calls are made in the order the
    history says (first assemble() with a prefix of the pairs / operations, the rest afterwards, re-assembly) and the
    mesh is returned assembled; {"kind": "query-first"} only asks patch_list.is_slave() before the pairs are declared."""
    ops, perms, cpos = make_ops(case, chop)
    mesh = cb.Mesh()
    kind = (history or {}).get("kind", "none")
    if kind == "query-first":
        mesh.patch_list.is_slave(history["query"])  # a pure query must not change what is assembled later
    if kind in ("none", "query-first"):
        if case["merge_first"]:
            for m, s in case["pairs"]:
                mesh.merge_patches(m, s)
        for oi in order:
            mesh.add(ops[oi])
        if not case["merge_first"]:
            for m, s in case["pairs"]:
                mesh.merge_patches(m, s)
        return mesh, cpos, perms
    nb, pb = history["ops_before"], history["pairs_before"]
    for m, s in case["pairs"][:pb]:
        mesh.merge_patches(m, s)
    for oi in order[:nb]:
        mesh.add(ops[oi])
    try:
        mesh.assemble()
        for oi in order[nb:]:
            mesh.add(ops[oi])
        for m, s in case["pairs"][pb:]:
            mesh.merge_patches(m, s)
        if history["reassemble"] == "backport":
            mesh.backport()
        else:
            mesh.clear()
            mesh.assemble()
    except Exception as ex:
        raise Violation("assemble-failed", f"history {history}: {type(ex).__name__}: {ex}", **facts_of(case)) from None
    return mesh, cpos, perms


def assemble_ids(case, order: List[int], history: Any = None):
    """vertex id of every (operation, corner) after the (last) Mesh.assemble() with the given insertion order"""
    mesh, cpos, perms = build(case, order, history=history)
    try:
        if not mesh.is_assembled:
            mesh.assemble()
    except Exception as ex:
        raise Violation("assemble-failed", f"assemble raised {type(ex).__name__}: {ex}", **facts_of(case)) from None
    vid = {}
    for bi, oi in enumerate(order):
        idx = list(mesh.blocks[bi].indexes)
        for i in range(8):
            vid[(oi, i)] = int(idx[i])
    return mesh, cpos, vid, perms


def facts_of(case) -> Dict[str, Any]:
    return {"mode": case["mode"], "blocks": len(case["cells"]), "pairs": len(case["pairs"]),
            "history": (case.get("history") or {}).get("kind", "none"),
            "jittered": bool(case["jit"]), "near_miss": bool(case["miss"])}


def partition(vid) -> frozenset:
    groups: Dict[int, List] = {}
    for x, v in vid.items():
        groups.setdefault(v, []).append(x)
    return frozenset(frozenset(g) for g in groups.values())


# --------------------------------------------------------------------------------------------------
# oracles


def check_partition(case, ref: Ref, vid, ctx: Ctx, where: str) -> Dict[str, int]:
    stats = {"shared": 0, "dup": 0, "open": 0, "self": 0}
    f = facts_of(case)
    cs = ref.corners
    for a in range(len(cs)):
        x = cs[a]
        for b in range(a + 1, len(cs)):
            y = cs[b]
            same = vid[x] == vid[y]
            if ref.pclass[x] != ref.pclass[y]:
                if same:
                    raise Violation("different-points-merged",
                                    f"{where}: corners {x} and {y} lie at different positions but refer to vertex {vid[x]}",
                                    near=ref.pclass[x][0] == ref.pclass[y][0], **f)
                continue
            if ref.self_merged(x) or ref.self_merged(y):
                stats["self"] += 1
                continue
            if ref.slave_set(x) == ref.slave_set(y):
                stats["shared"] += 1
                if not same:
                    raise Violation("same-point-not-shared",
                                    f"{where}: corners {x} and {y} coincide with the same slave patches "
                                    f"{sorted(ref.slave_set(x))} but refer to vertices {vid[x]} and {vid[y]}",
                                    slave_set=sorted(ref.slave_set(x)), **f)
            elif ref.master_vs_slave(x, y):
                stats["dup"] += 1
                if same:
                    raise Violation("master-shares-slave-vertex",
                                    f"{where}: corner {x} (patches {sorted(ref.patches[x])}) and corner {y} (patches "
                                    f"{sorted(ref.patches[y])}) are on the two sides of a merged pair but share vertex {vid[x]}",
                                    **f)
            else:
                stats["open"] += 1
    return stats


def check_dense(case, mesh, vid, cpos) -> None:
    f = facts_of(case)
    verts = mesh.vertex_list.vertices
    n = len(verts)
    used = set(vid.values())
    if used != set(range(n)):
        raise Violation("indices-not-dense", f"blocks use vertex numbers {sorted(used)} for a list of {n} vertices", **f)
    for pos_in_list, v in enumerate(verts):
        if v.index != pos_in_list:
            raise Violation("index-not-position", f"vertex at list position {pos_in_list} carries index {v.index}", **f)
    for x, v in vid.items():
        # a vertex stands for corners within the merge tolerance
        d = float(np.linalg.norm(np.asarray(verts[v].position) - cpos[x]))
        if d >= TOL:
            raise Violation("vertex-off-corner", f"corner {x} refers to vertex {v} which is {d:g} away", **f)


def label_case(case, ref: Ref, stats, ctx: Ctx) -> None:
    nodes: Dict[int, set] = {}
    for x in ref.corners:
        nodes.setdefault(ref.pclass[x][0], set()).add(x[0])
    ctx.nt(len(case["cells"]) >= 2 and any(len(v) >= 2 for v in nodes.values()))
    if stats["dup"]:
        ctx.label("has-merged-pair")
    if stats["open"]:
        ctx.label("has-open-combination")
    if stats["self"]:
        ctx.label("has-self-merged-corner")
    by_node: Dict[int, set] = {}
    for x in ref.corners:
        for s in ref.slave_set(x):
            by_node.setdefault(ref.pclass[x][0], set()).add(s)
    if any(len(v) >= 2 for v in by_node.values()):
        ctx.label("two-slave-patches-at-one-node")
    if any(len(ref.slave_set(x)) >= 2 for x in ref.corners):
        ctx.label("corner-with-two-slave-patches")
    multi: Dict[Tuple[Any, frozenset], set] = {}
    for x in ref.corners:
        if len(ref.slave_set(x)) >= 2 and not ref.self_merged(x):
            multi.setdefault((ref.pclass[x], ref.slave_set(x)), set()).add(x[0])
    shared_multi = [key for key, owners in multi.items() if len(owners) >= 2]
    if shared_multi:
        ctx.label("two-slave-corner-shared-by-two-blocks")
        # informative only: iteration order of such a set under the pinned hash seed (what an unsorted key would see)
        if any(list(set(key[1])) != sorted(key[1]) for key in shared_multi):
            ctx.label("two-slave-corner-shared:set-order-not-alphabetical")
    pres = case.get("pre") or []
    for kind in sorted({p["kind"] for p in pres if p["kind"] != "none"}):
        ctx.label("built-elsewhere:" + kind)
    paired = ref.masters | ref.slaves
    own = [[(g, n) for pi, g, n in case["patches"] if pi == oi] for oi in range(len(pres))]
    for oi, p in enumerate(pres):
        if p["kind"] in ("copy-of", "chain"):
            late = [n for _, n in own[p["src"]][p["at"]:]] + ([n for _, n in own[oi]] if p["kind"] == "copy-of" else [])
            if any(n in ref.slaves for n in late):
                ctx.label(p["kind"] + ":slave-patch-declared-after-" + ("copying" if p["kind"] == "copy-of" else "chaining"))
            if p["kind"] == "chain" and any(n in ref.slaves for _, n in own[p["src"]][: p["at"]]):
                ctx.label("chain:source-carries-slave-patch")
        if p["kind"] == "mirror":
            sides = {xs.local_side_name(case["orient"][oi], g) for (pi, g), name in ref.final.items() if pi == oi and name in paired}
            if sides & {"left", "right"}:
                ctx.label("mirrored-op-with-merged-patch-on-left-or-right")
            if sides & {"top", "bottom"}:
                ctx.label("mirrored-op-with-merged-patch-on-top-or-bottom")
    if case.get("offset"):
        ctx.label("far-from-origin" if max(abs(v) for v in case["offset"]) >= 1e5 else "offset-1e3")
    if case["jit"]:
        ctx.label("sub-TOL-jitter")
    if case["miss"]:
        ctx.label("near-miss")
    ctx.label(*lt.contact_labels(case))


def label_history(case, ref: Ref, ctx: Ctx) -> None:
    hist = case.get("history") or {"kind": "none"}
    ctx.label("history:" + hist["kind"])
    if hist["kind"].startswith("late-pairs"):
        ctx.label("reassemble:" + hist["reassemble"])
        late = {s for _, s in case["pairs"][hist["pairs_before"]:]}
        if any(ref.patches[x] & late for x in ref.corners):
            ctx.label("late-pair-has-slave-corners")
        if hist["ops_before"] < len(case["cells"]):
            ctx.label("operations-added-after-first-assembly")


def check_assembly(case, ctx: Ctx) -> None:
    order = list(range(len(case["cells"])))
    mesh, cpos, vid, perms = assemble_ids(case, order)
    ref = Ref(case, perms)
    stats = check_partition(case, ref, vid, ctx, "insertion order as listed")
    check_dense(case, mesh, vid, cpos)
    # every insertion order gives the same connectivity (also for the combinations that are not judged above)
    # ... and so does every order of the declaring calls: the second run follows the drawn history (pairs / operations
    # declared after a first assemble(), then clear()+assemble() or backport()); judged after its last assembly
    order2 = list(case["order2"])
    hist = case.get("history") or {"kind": "none"}
    mesh2, cpos2, vid2, perms2 = assemble_ids(case, order2, hist)
    if perms2 != perms:
        raise Violation("numbering-not-reproducible", "the same construction gave two different corner numberings", **facts_of(case))
    where = f"insertion order {order2}, history {hist}"
    check_partition(case, ref, vid2, ctx, where)
    check_dense(case, mesh2, vid2, cpos2)
    if partition(vid) != partition(vid2):
        raise Violation("order-dependent", f"connectivity differs between insertion order {order} (all declared first) and {where}",
                        **facts_of(case))
    if order2 != order:
        ctx.label("second-order-differs")
    label_history(case, ref, ctx)
    label_case(case, ref, stats, ctx)


def check_file(case, ctx: Ctx) -> None:
    order = list(case["order2"])
    mesh, cpos, perms = build(case, order, chop=True, history=case.get("history"))
    ref = Ref(case, perms)
    try:
        text, _ = lt.write_text(mesh)
    except Exception as ex:
        raise Violation("write-failed", f"write raised {type(ex).__name__}: {ex}", **facts_of(case)) from None
    try:
        bmd = lt.parse(text)
    except FoamParseError as ex:
        raise Violation("unparsable", f"written file does not parse: {ex}", **facts_of(case)) from None
    f = facts_of(case)
    if len(bmd.blocks) != len(order):
        raise Violation("block-count", f"{len(bmd.blocks)} hex entries for {len(order)} operations", **f)
    vid = {}
    for bi, oi in enumerate(order):
        ids = bmd.blocks[bi].ids
        live = list(mesh.blocks[bi].indexes)
        if list(ids) != [int(v) for v in live]:
            raise Violation("file-ids-differ", f"hex {bi} lists {ids}, Block.indexes is {live}", **f)
        for i in range(8):
            vid[(oi, i)] = ids[i]
    n = len(bmd.vertices)
    used = set(vid.values())
    if used != set(range(n)):
        raise Violation("indices-not-dense", f"hex entries use labels {sorted(used)}; the file lists {n} vertices", **f)
    if n != len(mesh.vertex_list.vertices):
        raise Violation("vertex-count", f"file lists {n} vertices, the mesh holds {len(mesh.vertex_list.vertices)}", **f)
    # printed with 8 decimals (half a unit of the last place = 5e-9, + rounding of the coordinate itself far from 0)
    half = 5.1e-9 + 4 * float(np.spacing(max(float(np.max(np.abs(p))) for p in cpos.values())))
    for x, v in vid.items():
        d = float(np.max(np.abs(np.asarray(bmd.vertices[v].pos) - cpos[x])))
        if d >= TOL + half:
            raise Violation("vertex-off-corner", f"corner {x} -> label {v} at {bmd.vertices[v].pos}, {d:g} away", **f)
    for i, v in enumerate(mesh.vertex_list.vertices):
        d = float(np.max(np.abs(np.asarray(bmd.vertices[i].pos) - np.asarray(v.position))))
        if d > half:
            raise Violation("list-order", f"vertex {i} of the file is {d:g} away from vertex {i} of the mesh", **f)
    stats = check_partition(case, ref, vid, ctx, "written file")
    label_history(case, ref, ctx)
    label_case(case, ref, stats, ctx)


# --------------------------------------------------------------------------------------------------
# fixed cases: the layouts of the repository's own tests, with both insertion orders


def _fixed_two(master_first: bool, flipped: bool):
    m, s = ("pA", "pB")
    a, b = (m, s) if not flipped else (s, m)
    return {"dims": [2, 1, 1], "widths": [[1.0, 1.0], [1.0], [1.0]], "jitter": [], "cells": [0, 1], "orient": [0, 0],
            "pairs": [[m, s]], "patches": [[0, 1, a], [1, 0, b]], "merge_first": master_first, "order2": [1, 0],
            "jit": [], "miss": [], "mode": "fixed"}


def _fixed_quad():
    # test_merged_multi: 2x2 boxes, four pairs around the centre line -> here two pairs (pool of 4 names)
    return {"dims": [2, 2, 1], "widths": [[1.0, 1.0], [1.0, 1.0], [1.0]], "jitter": [], "cells": [0, 1, 3, 2],
            "orient": [0, 5, 11, 17], "pairs": [["pA", "pB"], ["pC", "pD"]],
            "patches": [[0, 1, "pA"], [1, 0, "pB"], [2, 0, "pB"], [3, 1, "pA"],
                        [0, 3, "pC"], [3, 2, "pD"], [1, 3, "pC"], [2, 2, "pD"]],
            "merge_first": True, "order2": [3, 1, 0, 2], "jit": [], "miss": [], "mode": "fixed"}


FIXED = [_fixed_two(True, False), _fixed_two(False, True), _fixed_quad()]

CELLS = [
    Cell("C05/partition/random", c05_case("random"), check_assembly, 800, 40000,
         "4 patch names out of a pool of 16 on random sides, 0-2 pairs; reference partition, dense indices, second insertion order",
         fixed_cases=FIXED),
    Cell("C05/partition/structured", c05_case("structured"), check_assembly, 800, 40000,
         "master/slave of 1-2 pairs on the two sides of internal lattice faces (several pairs at one node) + noise patches"),
    Cell("C05/partition/two-pairs-along-edge", edge_case(), check_assembly, 400, 15000,
         "2x2x2 lattice: the blocks on the slave side of two pairs are stacked along the edge where the pairs meet; names "
         "from a pool of 16 so that set iteration orders differ from alphabetical"),
    Cell("C05/partition/aliasing-names", c05_case("aliasing"), check_assembly, 300, 10000,
         "three slave patches, one named like the other two joined by '_', '', '-', '.' or ',': a corner carrying both "
         "and a corner carrying the joined name are different slave sets (in 3 of 4 cases placed on the two sides of a merged "
         "interface, where the statement forbids sharing)"),
    Cell("C05/tolerance", c05_case("tolerance"), check_assembly, 1000, 40000,
         "per-corner jitter <= 0.2*TOL must merge, per-node near-miss of 3..8*TOL must not; with random patches/pairs"),
    Cell("C05/file", c05_case("structured"), check_file, 300, 10000,
         "count=1 chops everywhere, write, parse: hex labels = Block.indexes, vertex list order/positions, partition from "
         "the file's labels"),
]
