"""C19 — grid, slice and core/shell addressing of shapes and stacks is geometric (DESIGN.md section 4, C19)."""

from __future__ import annotations

import itertools
from typing import Any, Dict, List, Sequence, Tuple

import numpy as np
from hypothesis import strategies as st

from vf import refmodel as rm
from vf import x_shapes as xs
from vf.core import Cell, Ctx, Violation
from vf.x_shapes import D, W, Z

import classy_blocks as cb

RULE = (
    "Stacks: Grid(point_1, point_2, n1, n2) with independent corner coordinates of either sign, n1 x n2 (1..5) with 1..4 tiers (pairwise different sizes in 3 of 4 cases), extruded (amount / "
    "vector), revolved and transformed, base placed by a general rigid map; the expected centre of cell (i, j, k) is "
    "computed by the harness (layer maps from Rodrigues' formula) and every operation is decoded by its position. "
    "Round shapes and disk / oval / spline sketches in random placement: an entity touches the outer surface when one "
    "of its points lies on the intended circle / stadium / rounded rectangle / sphere. Deletion: the addressed "
    "operation is deleted, the mesh written and the hexes of the parsed file decoded by centroid. Non-trivial: general "
    "placement (stacks: and n1, n2, tiers pairwise different); distinct = distinct generated case."
)
ASSUMPTIONS = [
    "position match tolerance 1e-6 x smallest cell edge (cells are >= 1e-2 apart; file positions carry 8 decimals)",
    "negative indices address from the end as in Python (the shipped cube example uses get_slice(0, -1))",
    "an operation 'in tier k' includes its curved side edges: the arc points of revolved / mid-transformed stacks are "
    "compared with layer map k x mid map applied to the base sketch corners (1e-6 x cell size)",
    "in a lofted Grid the local axes of every operation are (column direction, row direction, sweep), so a count chop "
    "placed through grid[k][j][i] must show up in the hex decoded at (i, j, k)",
    "'on the outer surface': distance from the intended curve <= 1e-6 R + 5e-8; core points are >= 0.05 R away from it",
    "WrappedDisk has three tiers: core/shell membership is checked by position, exhaustiveness is not (DESIGN section 5)",
    "Mesh.delete is user input like the depot: the written file must be the same for every drawn history of public "
    "Mesh calls around it (write / assemble+backport / assemble+clear / write twice, and the delete placed between two "
    "assemblies: assemble, clear, delete, [assemble, backport,] write - the order of the shipped cube example), and no "
    "operation may have moved (backport writes unchanged vertex positions back)",
    "the end cross-section of a swept sketch is the image of the start sketch under the sweep computed by the harness "
    "(translation / rotation / scaling by Rodrigues); face centres are compared at 1e-6 x sketch size",
    "a caller may modify a list it was handed by a property or method that computes it on request (shape.operations, "
    "stack.operations, Stack.get_slice, RoundSolidShape.core / .shell): after extend / clear / reverse of every such "
    "list all positional checks and the delete check are repeated on fresh queries. Lists that are the object's own "
    "storage on the reference tree (shape.grid rows, sketch.grid / core / shell / faces, Hemisphere.operations, "
    "RevolvedRing.operations / .shell) are never modified by the harness",
    "placements include offsets of 1e3 / 1e5 / 1e6 sizes from the origin (as in C11; size capped so that the library's "
    "absolute TOL = 1e-7 stays 50x away); positional tolerances are relative to the cell size, not to the coordinates",
    "after the history one addressed operation and then the whole entity are translated with the library's translate: "
    "exactly the addressed corners move, once (Hemisphere lofts share Face objects with their neighbours by design, so "
    "only the whole shape is moved there)",
    "after a deletion every remaining operation carries the same count on all axes, so the write cannot fail for lack "
    "of chops; a failing write is labelled inconclusive, not judged",
]

# --------------------------------------------------------------------------------------------------
# stacks on a cartesian grid

SIZES = [(a, b, c) for a in range(1, 6) for b in range(1, 6) for c in range(1, 5)]
DISTINCT_SIZES = [s for s in SIZES if len(set(s)) == 3]


@st.composite
def stack_cases(draw, how: str):
    n1, n2, t = draw(st.sampled_from(DISTINCT_SIZES)) if draw(st.integers(0, 3)) else draw(st.sampled_from(SIZES))
    if draw(st.sampled_from([False, False, False, True])):
        n2 = 1  # single-row grid: shape.operations has nothing to flatten
    sp = {"kind": "Grid", "r": draw(xs.radii), "phi": 0.0, "n1": n1, "n2": n2, "aspect": draw(st.floats(0.3, 3.0)),
          "p1": draw(xs.grid_corners())}  # lower-left corner handed to Grid(), in units of r: x != y, either sign
    q = draw(xs.sweep_params(how))
    q["repeats"] = t
    counts = [[draw(st.integers(1, 6)) for _ in range(n)] for n in (n1, n2, t)]
    case = {
        "how": how, "sketch": sp, "sweep": q, "place": draw(xs.placements()), "counts": counts,
        "pick": [draw(st.integers(0, n1 - 1)), draw(st.integers(0, n2 - 1)), draw(st.integers(0, t - 1))],
        "history": draw(st.sampled_from(HISTORIES)),
        "mutate": draw(st.sampled_from(MUTATIONS)),
        "move": draw(moves()),
    }
    return xs.settle_far(case, draw(xs.far_offsets()), None)


def expected_centres(case) -> Dict[Tuple[int, int, int], np.ndarray]:
    sp, q, place = case["sketch"], case["sweep"], case["place"]
    M = xs.frame(place)
    n1, n2, t = sp["n1"], sp["n2"], q["repeats"]
    w1, w2 = sp["r"], sp["r"] * sp["aspect"]
    maps = xs.stack_maps(sp, q, place)
    x0, y0, _ = xs.sketch_origin(sp)
    out = {}
    for i, j in itertools.product(range(n1), range(n2)):
        # the rectangle requested from the constructor: point_1 = (x0, y0), point_2 = (x0 + w1, y0 + w2)
        quad = np.array([W(M, [x0 + (i + a) * w1 / n1, y0 + (j + b) * w2 / n2, 0.0])
                         for a, b in ((0, 0), (1, 0), (1, 1), (0, 1))])
        for k in range(t):
            out[(i, j, k)] = np.vstack([rm.apply(maps[k], quad), rm.apply(maps[k + 1], quad)]).mean(axis=0)
    return out


class Decoder:
    def __init__(self, centres: Dict[Any, np.ndarray], tol: float):
        self.keys = list(centres)
        self.pts = np.array([centres[k] for k in self.keys])
        self.tol = tol

    def __call__(self, p):
        d = np.linalg.norm(self.pts - np.asarray(p, float), axis=1)
        m = int(np.argmin(d))
        return self.keys[m] if d[m] <= self.tol else None


MUTATIONS = ["extend", "clear", "reverse"]


def mutate_returned(lists: List[list], how: str) -> int:
    """A caller modifies the lists it was handed (gathering two slices with +=, emptying or reordering its copy).
    Only lists that the object computes on request are passed in; addressing must not depend on them afterwards.
    Returns the number of lists changed."""
    snapshot = [list(x) for x in lists]
    done = 0
    for k, lst in enumerate(lists):
        if not isinstance(lst, list):
            continue
        if how == "extend":
            lst += snapshot[(k + 1) % len(snapshot)]
        elif how == "clear":
            lst.clear()
        else:
            lst.reverse()
        done += 1
    return done


def stack_facts(case) -> dict:
    sp, q = case["sketch"], case["sweep"]
    return {"how": case["how"], "n1": sp["n1"], "n2": sp["n2"], "tiers": q["repeats"]}


def check_stack(case, ctx: Ctx) -> None:
    sp, q, place = case["sketch"], case["sweep"], case["place"]
    n1, n2, t = sp["n1"], sp["n2"], q["repeats"]
    facts = stack_facts(case)
    centres = expected_centres(case)
    cell = min(sp["r"] / n1, sp["r"] * sp["aspect"] / n2)
    decode = Decoder(centres, 1e-6 * cell + 5e-8)

    try:
        spec = xs.build_stack(sp, q, place)
    except Exception as ex:  # noqa: BLE001
        raise Violation("construction-failed", f"{type(ex).__name__}: {str(ex)[:200]}", **facts) from None
    stack = spec.extra["shape"]

    sizes = (n1, n2, t)
    layer_maps = xs.stack_maps(sp, q, place)
    mid_map = xs.stack_mid_map(sp, q, place)
    gx, gy, _ = xs.sketch_origin(sp)
    gM = xs.frame(place)
    base_quads = {
        (i, j): np.array([W(gM, [gx + (i + a_) * sp["r"] / n1, gy + (j + b_) * sp["r"] * sp["aspect"] / n2, 0.0])
                          for a_, b_ in ((0, 0), (1, 0), (1, 1), (0, 1))])
        for i, j in itertools.product(range(n1), range(n2))
    }

    arcs_seen = [0]

    def positional(stack, facts_) -> None:
        # (a) grid[k][j][i] is column i, row j, tier k
        grid = stack.grid
        dims = (len(grid), sorted({len(g) for g in grid}), sorted({len(row) for g in grid for row in g}))
        if dims != (t, [n2], [n1]):
            raise Violation("grid-dimensions", f"grid is {dims[0]} x {dims[1]} x {dims[2]} lists, expected {t} x [{n2}] x [{n1}] "
                            "(tier, row, column)", **facts_)
        for k, j, i in itertools.product(range(t), range(n2), range(n1)):
            got = decode(grid[k][j][i].center)
            if got != (i, j, k):
                raise Violation("grid-address", f"grid[{k}][{j}][{i}] lies at cell (column, row, tier) = {got}",
                                index=[k, j, i], **facts_)
        # the whole operation occupies tier k: the control points of its curved side edges (revolved stacks, transformed
        # stacks with mid transforms) are where the harness's own layer and mid maps put them
        if mid_map is not None:
            for k, j, i in itertools.product(range(t), range(n2), range(n1)):
                op = grid[k][j][i]
                for corner in range(4):
                    edge = op.side_edges[corner]
                    if not hasattr(edge, "point"):
                        continue  # not a three-point arc: nothing positional to judge
                    arcs_seen[0] += 1
                    want = rm.apply(layer_maps[k] @ mid_map, base_quads[(i, j)][corner])
                    got = np.asarray(edge.point.position, float)
                    if np.linalg.norm(got - want) > 1e-6 * cell + 1e-9:
                        raise Violation(
                            "side-edge-address",
                            f"grid[{k}][{j}][{i}]: the arc point of side edge {corner} lies {np.linalg.norm(got - want):.3g} "
                            f"away from the middle of tier {k}", index=[k, j, i], **facts_)
        # the two-level grids of the base sketch and of each tier's shape follow the same rule
        base = stack.shapes[0].sketch_1
        M = xs.frame(place)
        for j, i in itertools.product(range(n2), range(n1)):
            x0, y0, _ = xs.sketch_origin(sp)
            want = W(M, [x0 + (i + 0.5) * sp["r"] / n1, y0 + (j + 0.5) * sp["r"] * sp["aspect"] / n2, 0.0])
            if np.linalg.norm(base.grid[j][i].center - want) > 1e-6 * cell:
                raise Violation("sketch-grid-address", f"sketch.grid[{j}][{i}] is not the face in column {i}, row {j}", **facts_)
        for k, shape in enumerate(stack.shapes):
            for j, i in itertools.product(range(n2), range(n1)):
                if decode(shape.grid[j][i].center) != (i, j, k):
                    raise Violation("shape-grid-address", f"shapes[{k}].grid[{j}][{i}] is not at column {i}, row {j}", **facts_)

        # (b) slices: exactly the operations with that index along the axis, each once
        everything = stack.operations
        if sorted(decode(op.center) or (-1, -1, -1) for op in everything) != sorted(centres):
            raise Violation("operations-content", "stack.operations is not every cell of the stack exactly once", **facts_)
        all_ids = {id(op) for op in everything}
        for axis in (0, 1, 2):
            for m in range(-sizes[axis], sizes[axis]):
                try:
                    ops = stack.get_slice(axis, m)
                except Exception as ex:  # noqa: BLE001
                    raise Violation("slice-raises", f"get_slice({axis}, {m}) raised {type(ex).__name__}: {ex}", axis=axis,
                                    **facts_) from None
                if len({id(op) for op in ops}) != len(ops) or not {id(op) for op in ops} <= all_ids:
                    raise Violation("slice-duplicates", f"get_slice({axis}, {m}) returns an operation twice or a foreign one",
                                    axis=axis, **facts_)
                got = sorted(decode(op.center) or (-1, -1, -1) for op in ops)
                want = sorted(c for c in centres if c[axis] == m % sizes[axis])
                if got != want:
                    raise Violation("slice-content", f"get_slice({axis}, {m}) returns cells {got}, expected {want}", axis=axis,
                                    index=m, **facts_)

    def handed_out(stack) -> List[list]:
        """everything a caller can ask for that the stack computes on request"""
        out = [stack.operations]
        out += [shape.operations for shape in stack.shapes]
        out += [stack.get_slice(axis, m) for axis in (0, 1, 2) for m in range(sizes[axis])]
        return out

    positional(stack, facts)
    how = case.get("mutate", "extend")
    mutate_returned(handed_out(stack), how)
    positional(stack, dict(facts, after_caller=how))
    grid = stack.grid

    # (c) chops placed through the grid show up at that location in the written file
    a, b, c = case["counts"]
    for i in range(n1):
        grid[0][0][i].chop(0, count=a[i])
    for j in range(n2):
        grid[0][j][0].chop(1, count=b[j])
    for k in range(t):
        grid[k][0][0].chop(2, count=c[k])
    mesh = cb.Mesh()
    mesh.add(stack)
    dec = xs.must_write(mesh, facts)
    seen = set()
    for h in range(len(dec.hexes)):
        at = decode(dec.centroid(h))
        if at is None or at in seen:
            raise Violation("hex-position", f"hex {h} of the written file is not at a (new) cell of the stack", **facts)
        seen.add(at)
        want = [a[at[0]], b[at[1]], c[at[2]]]
        if dec.bmd.blocks[h].counts != want:
            raise Violation("chop-address", f"hex at cell {at} has counts {dec.bmd.blocks[h].counts}, the chops placed "
                            f"through grid[k][j][i] give {want}", cell=list(at), **facts)
    if len(seen) != n1 * n2 * t:
        raise Violation("hex-count", f"{len(seen)} hexes for {n1 * n2 * t} cells", **facts)

    # (d) deleting grid[k][j][i] removes exactly the hex at (i, j, k)
    if n1 * n2 * t > 1:
        i, j, k = case["pick"]
        spec2 = xs.build_stack(sp, q, place)
        stack2 = spec2.extra["shape"]
        mutate_returned(handed_out(stack2), how)
        for op in stack2.operations:
            at = decode(op.center)
            if at is None:  # cannot happen after (a); keeps the harness honest
                raise Violation("grid-address", "an operation of a rebuilt stack is not at a cell centre", **facts)
            for axis, cnt in enumerate((a[at[0]], b[at[1]], c[at[2]])):
                op.chop(axis, count=cnt)
        mesh2 = cb.Mesh()
        mesh2.add(stack2)
        history = case.get("history", "write")
        ops2 = stack2.operations
        before = {n_: np.asarray(op.point_array, float).mean(axis=0) for n_, op in enumerate(ops2)}
        dec2 = write_after(mesh2, stack2.grid[k][j][i], history, dict(facts, history=history), ctx)
        if dec2 is not None:
            check_unmoved(ops2, before, 1e-6 * cell + 5e-8, dict(facts, history=history))
            left = sorted(decode(dec2.centroid(h)) or (-1, -1, -1) for h in range(len(dec2.hexes)))
            want = sorted(cc for cc in centres if cc != (i, j, k))
            if left != want:
                missing = sorted(set(want) - set(left))
                extra = sorted(set(left) - set(want))
                raise Violation("delete-address", f"mesh.delete(grid[{k}][{j}][{i}]): cells missing from the file "
                                f"{missing + [(i, j, k)] if (i, j, k) not in left else missing}, unexpected {extra}",
                                pick=[i, j, k], history=history, **facts)
            ctx.label("delete-checked", "history:" + history)
            check_moves(stack2, ops2, case.get("move"), cell, dict(facts, history=history))
            if case.get("move") is not None:
                ctx.label("moves-checked")
    general = xs.is_general(place)
    ctx.label(f"far-ratio={xs.far_ratio(case):.0e}" if xs.far_ratio(case) else "near-origin")
    ctx.nt(general and len({n1, n2, t}) == 3)
    ctx.label("general" if general else "aligned", "sizes-distinct" if len({n1, n2, t}) == 3 else "sizes-repeat",
              f"cells<={10 * ((n1 * n2 * t + 9) // 10)}", "caller:" + how, "single-row" if n2 == 1 else "multi-row")
    if mid_map is not None:
        ctx.label("side-arcs-addressed" if arcs_seen[0] else "side-arcs-absent", "tiers>=2" if t >= 2 else "tiers=1")


# --------------------------------------------------------------------------------------------------
# core / shell of round shapes and sketches


def ids_of(items) -> List[int]:
    return [id(x) for x in items]


def check_partition(name: str, core, shell, everything, touches, facts: dict, exhaustive: bool = True) -> None:
    """core/shell lists: disjoint, (exhaustive), and an entity is in shell iff it touches the outer surface"""
    core = [] if core is None else list(core)
    shell = list(shell)
    ci, si, ai = ids_of(core), ids_of(shell), ids_of(everything)
    if len(set(ci)) != len(ci) or len(set(si)) != len(si):
        raise Violation("duplicate-entry", f"{name}: an entity is listed twice in core or shell", **facts)
    if set(ci) & set(si):
        raise Violation("core-shell-overlap", f"{name}: core and shell share {len(set(ci) & set(si))} entities", **facts)
    if not (set(ci) | set(si)) <= set(ai):
        raise Violation("foreign-entry", f"{name}: core/shell contain entities that are not part of the object", **facts)
    if exhaustive and (set(ci) | set(si)) != set(ai):
        raise Violation("not-exhaustive", f"{name}: {len(set(ai) - set(ci) - set(si))} entities are in neither core nor shell",
                        **facts)
    for m, e in enumerate(core):
        if touches(e):
            raise Violation("core-touches-outer", f"{name}: core[{m}] has a point on the outer surface", index=m, **facts)
    for m, e in enumerate(shell):
        if not touches(e):
            raise Violation("shell-misses-outer", f"{name}: shell[{m}] has no point on the outer surface", index=m, **facts)
    if not exhaustive:
        for e in everything:
            if id(e) not in set(ci) | set(si) and touches(e):
                raise Violation("unlisted-touches-outer", f"{name}: an entity outside core and shell touches the outer surface",
                                **facts)


# What happens around mesh.delete() before the file that is judged is written: sequences of public Mesh calls.  A
# deletion is the user's instruction like the depot itself, so whatever the order of assemble / clear / backport around
# it (the shipped cube example assembles, clears, deletes, and writes), the file holds every block but the deleted one and
# no operation has moved.
HISTORY_STEPS = {
    "write": ["delete", "write"],
    "assemble-backport-write": ["delete", "assemble", "backport", "write"],
    "assemble-clear-write": ["delete", "assemble", "clear", "write"],
    "write-twice": ["delete", "write", "write"],
    "assemble-clear-delete-write": ["assemble", "clear", "delete", "write"],
    "assemble-clear-delete-assemble-backport-write": ["assemble", "clear", "delete", "assemble", "backport", "backport",
                                                      "write"],
    "assemble-backport-clear-delete-assemble-backport-write": ["assemble", "backport", "clear", "delete", "assemble",
                                                               "backport", "write"],
}
HISTORIES = list(HISTORY_STEPS)


def write_after(mesh, victim, history: str, facts: dict, ctx: Ctx):
    """runs the history; -> Decoded of the last write, or None (inconclusive: some step of the history raised, which is
    another property's business)"""
    dec = None
    try:
        for step in HISTORY_STEPS[history]:
            if step == "delete":
                mesh.delete(victim)
            elif step == "assemble":
                mesh.assemble()
            elif step == "clear":
                mesh.clear()
            elif step == "backport":
                mesh.backport()
            else:
                dec = xs.must_write(mesh, facts)
        return dec
    except Exception:  # noqa: BLE001  (Violation from must_write included)
        ctx.label("delete-write-inconclusive")
        return None


@st.composite
def moves(draw):
    """what the caller does with the model after the history: move one addressed operation, then the whole entity"""
    vec = lambda: [draw(st.floats(0.3, 2.0)) * draw(st.sampled_from([1.0, -1.0])) for _ in range(3)]  # noqa: E731
    return {"op": draw(st.sampled_from(list(range(12)))), "v1": vec(), "v2": vec()}


def check_moves(entity, ops: Sequence, move, size: float, facts: dict, single: bool = True) -> None:
    """translating one addressed operation moves its eight corners and nothing else; translating the entity moves every
    corner of every operation once (in-place transforms after assemble / backport included)"""
    if move is None:
        return
    corners = [np.array(op.point_array, dtype=float) for op in ops]
    tol = 1e-6 * size + 1e-12 * float(np.abs(corners[0]).max())  # float64 noise of an in-place addition far out
    shift = [np.zeros(3) for _ in ops]
    steps = []
    if single:
        k = move["op"] % len(ops)
        steps.append((ops[k], np.array(move["v1"]) * size, [k], f"operation {k}"))
    steps.append((entity, np.array(move["v2"]) * size, list(range(len(ops))), "the whole entity"))
    for target, v, who, name in steps:
        target.translate(v)
        for k in who:
            shift[k] = shift[k] + v
        for k, op in enumerate(ops):
            err = float(np.abs(np.asarray(op.point_array, float) - (corners[k] + shift[k])).max())
            if err > tol:
                raise Violation("translate-address", f"after translating {name}, operation {k} is {err:.3g} away from where "
                                f"it {'should have gone' if k in who else 'was'}", moved=name.split()[0], **facts)


def check_unmoved(ops: Sequence, cents: Dict[Any, np.ndarray], tol: float, facts: dict) -> None:
    """no operation has left its location during the history (backport writes vertex positions back into operations)"""
    for key, op in zip(cents, ops):
        now = np.asarray(op.point_array, float).mean(axis=0)
        if np.linalg.norm(now - cents[key]) > tol:
            raise Violation("operation-moved", f"operation {key} sits {np.linalg.norm(now - cents[key]):.3g} away from its "
                            "location after the history", moved=str(key), **facts)


def delete_check(entity, ops: Sequence, victim, facts: dict, ctx: Ctx, history: str = "write", move=None,
                 single: bool = True) -> None:
    """every operation gets the same count on all axes; the victim is deleted; the file must hold all other hexes"""
    cents = {k: np.asarray(op.point_array, float).mean(axis=0) for k, op in enumerate(ops)}
    size = min(np.linalg.norm(np.asarray(op.point_array)[1] - np.asarray(op.point_array)[0]) for op in ops)
    for op in ops:
        for axis in (0, 1, 2):
            op.unchop(axis)
            op.chop(axis, count=2)
    mesh = cb.Mesh()
    mesh.add(entity)
    facts = dict(facts, history=history)
    dec = write_after(mesh, victim, history, facts, ctx)
    if dec is None:
        return
    decode = Decoder(cents, 1e-6 * size + 5e-8)
    check_unmoved(ops, cents, 1e-6 * size + 5e-8, facts)
    left = sorted(-1 if (d := decode(dec.centroid(h))) is None else d for h in range(len(dec.hexes)))
    gone = [k for k, op in enumerate(ops) if op is victim]
    want = sorted(k for k in cents if k not in gone)
    if left != want:
        raise Violation("delete-address", f"deleting operation {gone} left hexes {left}, expected {want}", victim=gone, **facts)
    ctx.label("delete-checked", "history:" + history)
    check_moves(entity, ops, move, size, facts, single)
    if move is not None:
        ctx.label("moves-checked")


def touch_tests(spec, case):
    """-> predicate(points 8x3 or 4x3) for 'has a point on the outer surface' of a round shape"""
    ex = spec.extra
    r = case["r"]

    if case["cls"] == "Hemisphere":
        c, rad = ex["sphere"]
        tol = 1e-6 * rad + 5e-8
        return lambda pts: bool(np.any(np.abs(np.linalg.norm(np.asarray(pts) - c, axis=1) - rad) <= tol))
    if case["cls"] == "RevolvedRing":
        circles = spec.circles[2:]  # cross-section points 2 and 3 generate the outer surface
        return lambda pts: any(cc.has(p) for p in np.asarray(pts) for cc in circles)
    ends = [xs.Circle(c, n, rad, 0) for c, n, rad in ex["ends"]]
    return lambda pts: any(cc.has(p) for p in np.asarray(pts) for cc in ends)


@st.composite
def round_cases(draw, cls: str):
    p = draw(xs.round_params(cls))
    p["place"] = draw(xs.placements())
    p["which"] = draw(st.sampled_from(["core", "shell"]))
    p["m"] = draw(st.sampled_from(list(range(12))))
    p["history"] = draw(st.sampled_from(HISTORIES))
    p["mutate"] = draw(st.sampled_from(MUTATIONS))
    p["move"] = draw(moves())
    return xs.settle_far(p, draw(xs.far_offsets()), None)


def check_round(case, ctx: Ctx) -> None:
    facts = {"shape": case["cls"], "aligned": bool(case["place"].get("aligned"))}
    try:
        spec = xs.build_round(case, case["place"])
    except Exception as ex:  # noqa: BLE001
        raise Violation("construction-failed", f"{type(ex).__name__}: {str(ex)[:200]}", **facts) from None
    shape = spec.extra["shape"]
    touches = touch_tests(spec, case)
    want = {"Cylinder": (4, 8), "SemiCylinder": (2, 4), "Frustum": (4, 8), "FrustumMid": (4, 8), "Elbow": (4, 8),
            "Hemisphere": (4, 12)}.get(case["cls"], (0, case.get("n", 0)))

    def positional(facts_):
        try:
            core, shell, ops = shape.core, shape.shell, shape.operations
        except Exception as ex:  # noqa: BLE001
            raise Violation("core-shell-raises", f"{case['cls']}.core / .shell raised {type(ex).__name__}: {ex}",
                            **facts_) from None
        check_partition(case["cls"], core, shell, ops, lambda op: touches(op.point_array), facts_)
        if (len(core), len(shell)) != want:
            raise Violation("core-shell-size", f"{len(core)} core and {len(shell)} shell operations, expected {want}", **facts_)
        # the shape's two-level grid: [core, shell] ([shell] for rings)
        try:
            grid = shape.grid
        except Exception as ex:  # noqa: BLE001
            raise Violation("grid-raises", f"{case['cls']}.grid raised {type(ex).__name__}: {ex}", **facts_) from None
        if any(touches(op.point_array) for op in (grid[0] if len(grid) > 1 else [])) or not all(
                touches(op.point_array) for op in grid[-1]):
            raise Violation("shape-grid-address", "grid[0] / grid[-1] are not the inner / outer operations", **facts_)
        if sorted(ids_of(op for row in grid for op in row)) != sorted(ids_of(ops)):
            raise Violation("shape-grid-cover", "shape.grid does not hold every operation exactly once", **facts_)
        return core, shell, ops

    core, shell, ops = positional(facts)
    # the caller modifies the lists it was handed; only lists the class computes on request (Hemisphere.operations and
    # RevolvedRing.operations / .shell are the objects' own storage on the reference tree and are left alone)
    how = case.get("mutate", "extend")
    names = {"Hemisphere": ["core", "shell"], "RevolvedRing": []}.get(case["cls"], ["operations", "core", "shell"])
    handed = [getattr(shape, nm) for nm in names]
    if handed:
        mutate_returned(handed, how)
    core, shell, ops = positional(dict(facts, after_caller=how))
    lst = core if (case["which"] == "core" and len(core)) else shell
    victim = lst[case["m"] % len(lst)]
    # Hemisphere lofts share Face objects with their neighbours by design: only the whole shape is moved there
    delete_check(shape, ops, victim, facts, ctx, case.get("history", "write"), case.get("move"),
                 single=case["cls"] != "Hemisphere")
    ctx.nt(xs.is_general(case["place"]))
    ctx.label(f"far-ratio={xs.far_ratio(case):.0e}" if xs.far_ratio(case) else "near-origin")
    ctx.label("general" if xs.is_general(case["place"]) else "aligned", "delete:" + ("core" if lst is core else "shell"),
              "caller:" + how if handed else "caller:untouched")


SKETCHES = ["OneCoreDisk", "FourCoreDisk", "HalfDisk", "QuarterDisk", "WrappedDisk", "Oval",
            "QuarterSplineDisk", "HalfSplineDisk", "SplineDisk", "QuarterSplineRing", "HalfSplineRing", "SplineRing"]


@st.composite
def sketch_cases(draw, kind: str):
    case = {
        "kind": kind, "sketch": draw(xs.sketch_params(kind)), "place": draw(xs.placements()),
        "sweep": draw(st.sampled_from(["extrude-amount", "revolve", "loft"]).flatmap(xs.sweep_params)),
        "tier": draw(st.sampled_from([1, 0, 2])), "m": draw(st.sampled_from(list(range(12)))),
        "history": draw(st.sampled_from(HISTORIES)), "mutate": draw(st.sampled_from(MUTATIONS)), "move": draw(moves()),
    }
    return xs.settle_far(case, draw(xs.far_offsets()), None)


def check_sketch(case, ctx: Ctx) -> None:
    sp, place = case["sketch"], case["place"]
    kind = case["kind"]
    facts = {"sketch": kind, "spline": sp.get("shape"), "aligned": bool(place.get("aligned"))}
    try:
        sketch, truth = xs.make_sketch(sp, place)
        shape, maps, _scales = xs.sweep_shape(sketch, sp, case["sweep"], place)
    except Exception as ex:  # noqa: BLE001
        raise Violation("construction-failed", f"{type(ex).__name__}: {str(ex)[:200]}", **facts) from None
    Minv = np.linalg.inv(xs.frame(place))

    def touches(points) -> bool:
        return any(truth.on_rim(rm.apply(Minv, p)) for p in np.asarray(points, float))

    exhaustive = truth.two_tier or "Ring" in kind
    check_partition(kind, sketch.core, sketch.shell, sketch.faces, lambda f: touches(f.point_array), facts, exhaustive)
    if sketch.core is None:
        ctx.label("core-is-None")
    grid = sketch.grid
    if len(grid) > 1 and any(touches(f.point_array) for f in grid[0]):
        raise Violation("sketch-grid-address", f"{kind}.grid[0] holds a face on the outer boundary", **facts)
    if not all(touches(f.point_array) for f in grid[-1]):
        raise Violation("sketch-grid-address", f"{kind}.grid[-1] holds a face that is not on the outer boundary", **facts)
    if sorted(ids_of(f for row in grid for f in row)) != sorted(ids_of(sketch.faces)):
        raise Violation("sketch-grid-cover", f"{kind}.grid does not hold every face exactly once", **facts)

    def shape_checks(facts_):
        # the shape lofted from it: grid[0] inner, grid[-1] outer operations (judged on the start face = the sketch)
        sgrid = shape.grid
        if [len(row) for row in sgrid] != [len(row) for row in grid]:
            raise Violation("shape-grid-address", "shape.grid has a different layout from sketch.grid", **facts_)
        if len(sgrid) > 1 and any(touches(op.bottom_face.point_array) for op in sgrid[0]):
            raise Violation("shape-grid-address", f"shape.grid[0] of a shape on {kind} holds an outer operation", **facts_)
        if not all(touches(op.bottom_face.point_array) for op in sgrid[-1]):
            raise Violation("shape-grid-address", f"shape.grid[-1] of a shape on {kind} holds an inner operation", **facts_)
        if sorted(ids_of(op for row in sgrid for op in row)) != sorted(ids_of(shape.operations)):
            raise Violation("shape-grid-cover", "shape.grid does not hold every operation exactly once", **facts_)
        # both ends of an addressed operation: it starts on sketch cell [i][j] and ends on the image of that cell under
        # the sweep (the harness's own map), and the inner / outer rule holds on the end cross-section as well
        to_start = np.linalg.inv(maps[1])

        def touches_end(points) -> bool:
            return touches(rm.apply(to_start, np.asarray(points, float)))

        for i, row_ in enumerate(sgrid):
            for j, op in enumerate(row_):
                start = np.asarray(grid[i][j].center, float)
                for name, face, want in (("starts", op.bottom_face, start), ("ends", op.top_face, rm.apply(maps[1], start))):
                    if np.linalg.norm(np.asarray(face.center, float) - want) > 1e-6 * truth.size + 1e-9:
                        raise Violation("shape-grid-end-face", f"shape.grid[{i}][{j}] on {kind} {name} on a face that is not "
                                        f"cell [{i}][{j}] of that cross-section", end=name, index=[i, j], **facts_)
        if len(sgrid) > 1 and any(touches_end(op.top_face.point_array) for op in sgrid[0]):
            raise Violation("shape-grid-address", f"shape.grid[0] of a shape on {kind} reaches the outer surface at its end face",
                            **facts_)
        if not all(touches_end(op.top_face.point_array) for op in sgrid[-1]):
            raise Violation("shape-grid-address", f"shape.grid[-1] of a shape on {kind} leaves the outer surface at its end face",
                            **facts_)
        return sgrid

    sgrid = shape_checks(facts)
    # the caller modifies the list of operations it was handed; addressing through the grid must not notice
    how = case.get("mutate", "extend")
    mutate_returned([shape.operations, shape.operations], how)
    sgrid = shape_checks(dict(facts, after_caller=how))
    row = sgrid[case["tier"] % len(sgrid)]
    delete_check(shape, shape.operations, row[case["m"] % len(row)], facts, ctx, case.get("history", "write"),
                 case.get("move"))
    ctx.nt(xs.is_general(place))
    ctx.label(f"far-ratio={xs.far_ratio(case):.0e}" if xs.far_ratio(case) else "near-origin")
    ctx.label("general" if xs.is_general(place) else "aligned", "sweep:" + case["sweep"]["how"],
              f"delete-tier={case['tier'] % len(sgrid)}", "caller:" + how,
              "single-row" if len(sgrid) == 1 else "multi-row")
    if "shape" in sp:
        ctx.label("spline:" + sp["shape"])


# --------------------------------------------------------------------------------------------------

CELLS: List[Cell] = []
for _how in xs.STACKS:
    CELLS.append(Cell(f"C19/stack/{_how}", stack_cases(_how), check_stack, 12, 400,
                      f"{_how} stack on a Grid: grid[k][j][i] / sketch.grid / shape.grid by position, get_slice for every axis "
                      "and index (also negative), chops placed through the grid decoded from the file, delete one cell"))
for _cls in xs.ROUND_CLASSES:
    CELLS.append(Cell(f"C19/round/{_cls}", round_cases(_cls), check_round, 10, 300,
                      f"{_cls}: core/shell partition by contact with the outer surface, grid = [core, shell], deleting an "
                      "addressed operation removes exactly that hex"))
for _kind in SKETCHES:
    CELLS.append(Cell(f"C19/sketch/{_kind}", sketch_cases(_kind), check_sketch, 10, 300,
                      f"{_kind}: core/shell/grid of the sketch and of a shape lofted from it by contact with the outer "
                      "boundary; delete through shape.grid"))


# User-defined round shapes: a subclass that sets `sketch_class` (as examples/complex/cyclone does) - also one that
# carries the *name* of a built-in class - has the core/shell split of its own sketch, whatever was built before it
# in the same process (seeded C19_12: a split remembered per class name).
USER_SKETCHES = {"OneCoreDisk": (1, 4), "FourCoreDisk": (4, 8), "HalfDisk": (2, 4)}


@st.composite
def subclass_cases(draw):
    return {
        "base": draw(st.sampled_from(["Cylinder", "SemiCylinder"])),
        "same_name": draw(st.booleans()),
        "sketch": draw(st.sampled_from(sorted(USER_SKETCHES))),
        "builtin_first": draw(st.booleans()),
        "r": draw(st.floats(0.2, 3.0)),
        "h": draw(st.floats(0.3, 5.0)),
        "origin": [draw(st.floats(-10, 10)) for _ in range(3)],
        "axis": draw(st.integers(0, 2)),
    }


def check_subclass(case, ctx: Ctx) -> None:
    base = getattr(cb, case["base"])
    sketch = getattr(cb, case["sketch"])
    name = case["base"] if case["same_name"] else "User" + case["base"]
    user = type(name, (base,), {"sketch_class": sketch})
    facts = {"shape": case["base"], "sketch": case["sketch"], "same_name": case["same_name"],
             "builtin_first": case["builtin_first"]}
    o = np.array(case["origin"], float)
    ax = np.zeros(3)
    ax[case["axis"]] = 1.0
    rad = np.zeros(3)
    rad[(case["axis"] + 1) % 3] = case["r"]
    tol = 1e-6 * case["r"] + 5e-8

    def touches(op) -> bool:
        d = np.asarray(op.point_array, float) - o
        radial = d - np.outer(d @ ax, ax)
        return bool(np.any(np.abs(np.linalg.norm(radial, axis=1) - case["r"]) <= tol))

    def judge(cls, want, label):
        try:
            shape = cls(o, o + case["h"] * ax, o + rad)
            core, shell, ops = shape.core, shape.shell, shape.operations
        except Exception as ex:  # noqa: BLE001
            raise Violation("core-shell-raises", f"{label}: {type(ex).__name__}: {str(ex)[:200]}", **facts) from None
        check_partition(label, core, shell, ops, touches, facts)
        if (len(core), len(shell)) != want:
            raise Violation("core-shell-size", f"{label}: {len(core)} core and {len(shell)} shell operations, expected {want}",
                            **facts)

    builtin_want = {"Cylinder": (4, 8), "SemiCylinder": (2, 4)}[case["base"]]
    steps = [(base, builtin_want, f"built-in {case['base']}"), (user, USER_SKETCHES[case["sketch"]],
                                                               f"user class {name}(sketch_class={case['sketch']})")]
    if not case["builtin_first"]:
        steps.reverse()
    for cls, want, label in steps:
        judge(cls, want, label)
    ctx.nt(USER_SKETCHES[case["sketch"]] != builtin_want)
    ctx.label("same-name" if case["same_name"] else "other-name")


CELLS.append(Cell("C19/round/user-subclass", subclass_cases(), check_subclass, 60, 1000,
                  "a user subclass of Cylinder / SemiCylinder with its own sketch_class (OneCoreDisk, FourCoreDisk, HalfDisk), "
                  "named like the built-in class or not, built before or after a built-in shape: both have the core/shell "
                  "split of their own sketch, judged by contact with the outer surface"))
