"""C03 — cell count and expansion ratio obey the geometric-progression law (DESIGN.md section 4, C03)."""

from __future__ import annotations

import functools
import itertools
import math
import warnings

from hypothesis import strategies as st

from vf.core import Cell, Ctx, Violation
from vf.refmodel import gp_first_c2c, gp_first_last, gp_sizes, multi_sizes

warnings.simplefilter("ignore")

from classy_blocks.grading.chop import Chop  # noqa: E402
from classy_blocks.grading.grading import Grading  # noqa: E402

PARAMS = ["count", "start_size", "end_size", "c2c_expansion", "total_expansion"]
PAIRS = list(itertools.combinations(PARAMS, 2))
SHORT = {"count": "count", "start_size": "start", "end_size": "end", "c2c_expansion": "c2c", "total_expansion": "total"}

RULE = (
    "Chop(**pair).calculate(L) is compared with an independent model of blockMesh's geometric progression "
    "(vf.refmodel.gp_*). consistent = the two given values come from one true progression (L, n, r), so the set is "
    "realisable by construction; free = independent draws (may be unrealisable; any exception is an accepted "
    "rejection, a returned result must still obey the law). Non-trivial: returned count >= 2 and ratio != 1 exactly; "
    "distinct = distinct generated case."
)
ASSUMPTIONS = [
    "blockMesh semantics of (n, total expansion): n cells in geometric progression with last/first = total",
    "tolerance tau = 1e-9 + n*1.5e-7 relative on realised sizes (the library switches to the uniform formula inside "
    "|r-1| <= 1e-7, which perturbs sizes by <= n*1e-7/2 relative)",
    "must-succeed (core) domain: consistent mode, count <= 60, r in [0.8, 1.25] or |r-1| <= 1e-9, excluding count = 1 "
    "with a size or total expansion given, and 1e-7 < |T-1| < 1e-5 for the root-finding pairs",
]

# --------------------------------------------------------------------------------------------------
# generators

NEAR_ONE = [0.0, 1e-9, 5e-8, 1e-7 * (1 - 1e-3), 1e-7, 1e-7 * (1 + 1e-3), 2e-7, 1e-6, 1e-4]


@functools.lru_cache(maxsize=None)
def rmax(n: int) -> float:
    """largest c2c ratio r <= 2 for which the smallest of n cells is still >= 1e-4 of the length"""
    if n == 1:
        return 2.0

    def smin(r: float) -> float:
        return gp_first_c2c(1.0, n, r)

    if smin(2.0) >= 1e-4:
        return 2.0
    lo, hi = 1.0, 2.0
    for _ in range(80):
        mid = 0.5 * (lo + hi)
        if smin(mid) >= 1e-4:
            lo = mid
        else:
            hi = mid
    return lo


def _ratio(n: int):
    wide = st.floats(-1.0, 1.0).map(lambda x: math.exp(x * math.log(rmax(n))))
    mild = st.floats(-1.0, 1.0).map(lambda x: math.exp(x * math.log(min(1.25, rmax(n)))))
    near = st.tuples(st.sampled_from(NEAR_ONE), st.sampled_from([1, -1])).map(lambda t: 1.0 + t[0] * t[1])
    return st.one_of(mild, wide, near)


_length = st.floats(-3.0, 3.0).map(lambda u: 10.0**u)
_count = st.one_of(st.integers(1, 12), st.integers(1, 60), st.integers(1, 200))


@st.composite
def consistent_case(draw, pair):
    n = draw(_count)
    r = draw(_ratio(n))
    exact = draw(st.booleans()) and abs(r - 1) < 1e-12
    if exact:
        # exact-integer solution: L = n * s with s = m * 2^-k (all representable)
        m = draw(st.integers(1, 64))
        k = draw(st.integers(0, 10))
        s = m * 2.0**-k
        length = n * s
        r = 1.0
    else:
        length = draw(_length)
    s0 = gp_first_c2c(length, n, r)
    total = r ** (n - 1)
    se = s0 * total
    vals = {"count": n, "start_size": s0, "end_size": se, "c2c_expansion": r, "total_expansion": total}
    return {"mode": "consistent", "pair": list(pair), "L": length, "given": {k: vals[k] for k in pair},
            "truth": {"n": n, "r": r, "exact": exact}}


@st.composite
def free_case(draw, pair):
    length = draw(_length)
    given = {}
    for p in pair:
        if p == "count":
            given[p] = draw(_count)
        elif p in ("start_size", "end_size"):
            given[p] = length * 10.0 ** draw(st.floats(-4.0, 0.0))
        else:
            x = draw(st.one_of(st.floats(0.5, 2.0), st.tuples(st.sampled_from(NEAR_ONE), st.sampled_from([1, -1])).map(
                lambda t: 1.0 + t[0] * t[1])))
            given[p] = x
    return {"mode": "free", "pair": list(pair), "L": length, "given": given, "truth": None}


# --------------------------------------------------------------------------------------------------
# oracle


def tau(n: int) -> float:
    return 1e-9 + n * 1.5e-7


def rel(a: float, b: float) -> float:
    return abs(a - b) / max(abs(a), abs(b), 1e-300)


def law_check(case, n, total) -> None:
    """checks a returned (count, total_expansion) against the given parameters; raises Violation"""
    L = case["L"]
    g = case["given"]
    pair = tuple(case["pair"])
    facts = {"pair": "+".join(SHORT[p] for p in pair), "mode": case["mode"], "given": g, "L": L, "n": n, "T": total}

    if isinstance(n, bool) or not isinstance(n, (int,)) and not (hasattr(n, "dtype") and n.dtype.kind in "iu"):
        raise Violation("count-not-integer", f"count {n!r} of type {type(n).__name__}", **facts)
    n = int(n)
    total = float(total)
    facts["n"], facts["T"] = n, total
    if n < 1:
        raise Violation("count-below-one", f"count {n}", **facts)
    if not math.isfinite(total) or total <= 0:
        raise Violation("expansion-not-finite-positive", f"total expansion {total}", **facts)

    t = tau(n)
    first, last = gp_first_last(L, n, total)
    r_real = total ** (1.0 / (n - 1)) if n > 1 else 1.0

    if "count" in g and n != max(int(g["count"]), 1):
        raise Violation("count-changed", f"given count {g['count']} returned {n}", **facts)

    if pair == ("c2c_expansion", "total_expansion"):
        if rel(total, g["total_expansion"]) > 1e-12:
            raise Violation("total-changed", f"given total {g['total_expansion']} returned {total}", **facts)
        n_real = 1 + math.log(g["total_expansion"]) / math.log(g["c2c_expansion"])
        if abs(n - n_real) > 1 + 1e-9:
            raise Violation("count-off", f"count {n} vs 1+lnT/lnr = {n_real}", **facts)
        return

    if "total_expansion" in g and rel(total, g["total_expansion"]) > 1e-12:
        raise Violation("total-changed", f"given total {g['total_expansion']} returned {total}", **facts)

    if "c2c_expansion" in g and n > 1:
        # tolerance on r: the library treats |r-1| <= 1e-7 as 1
        if abs(r_real - g["c2c_expansion"]) > 1e-9 * g["c2c_expansion"] + 1.0000001e-7 * (abs(g["c2c_expansion"] - 1) <= 1.0000001e-7):
            raise Violation("c2c-not-reproduced", f"given c2c {g['c2c_expansion']} realised {r_real}", **facts)

    for key, realised in (("start_size", first), ("end_size", last)):
        if key not in g:
            continue
        want = g[key]
        if "count" in g:
            if rel(realised, want) > t:
                raise Violation("size-not-reproduced", f"{key} given {want} realised {realised} (count given)", **facts)
            continue
        # count was computed: never coarser than requested ...
        if realised > want * (1 + t):
            raise Violation("coarser-than-requested", f"{key} given {want} realised {realised} with {n} cells", **facts)
        # ... and coarser (or equal) with one cell fewer, keeping the other given parameter
        if n > 1:
            if "c2c_expansion" in g:
                r = g["c2c_expansion"]
                f1 = gp_first_c2c(L, n - 1, r)
                fewer = f1 if key == "start_size" else f1 * r ** (n - 2)
            else:
                f1, l1 = gp_first_last(L, n - 1, total)
                fewer = f1 if key == "start_size" else l1
            if fewer < want * (1 - tau(n)):
                raise Violation("finer-than-needed", f"{key} given {want}: {n - 1} cells would already give {fewer}", **facts)
        if "start_size" in g and "end_size" in g and rel(total, g["end_size"] / g["start_size"]) > 1e-12:
            raise Violation("total-changed", f"start/end given, total {total} != end/start", **facts)


def in_core(case) -> bool:
    tr = case["truth"]
    if tr is None:
        return False
    n, r = tr["n"], tr["r"]
    pair = tuple(case["pair"])
    if n > 60:
        return False
    if not (0.8 <= r <= 1.25):
        return False
    if abs(r - 1) > 1e-9 and abs(r - 1) < 1e-4:
        return False
    if n == 1 and pair != ("count", "c2c_expansion"):
        return False
    total = r ** (n - 1)
    if pair == ("c2c_expansion", "total_expansion") and abs(r - 1) <= 1e-4:
        return False
    if 1e-7 * 0.5 < abs(total - 1) < 1e-5:
        return False
    return True


def check_pair(case, ctx: Ctx) -> None:
    g = dict(case["given"])
    pair = "+".join(SHORT[p] for p in case["pair"])
    try:
        chop = Chop(**g)
        n, total = chop.calculate(case["L"])
    except Exception as ex:  # rejection
        ctx.label("rejected")
        if case["mode"] == "consistent" and in_core(case):
            raise Violation(
                "realisable-rejected",
                f"realisable parameters in the core domain rejected: {type(ex).__name__}: {ex}",
                pair=pair, mode=case["mode"], given=g, L=case["L"], truth=case["truth"],
            ) from None
        return
    law_check(case, n, total)
    n = int(n)
    r_real = float(total) ** (1.0 / (n - 1)) if n > 1 else 1.0
    ctx.nt(n >= 2 and r_real != 1.0)
    ctx.label("near-one" if abs(r_real - 1) <= 1e-6 else "graded")
    if case["truth"] and case["truth"].get("exact"):
        ctx.label("exact-integer")
    if in_core(case):
        ctx.label("core")


# inversion ----------------------------------------------------------------------------------------


def check_invert(case, ctx: Ctx) -> None:
    g = dict(case["given"])
    L = case["L"]
    pair = "+".join(SHORT[p] for p in case["pair"])
    try:
        n, total = Chop(**g).calculate(L)
    except Exception:
        ctx.label("rejected")
        return
    inv = Chop(**g)
    inv.invert()
    facts = {"pair": pair, "given": g, "L": L, "n": int(n), "T": float(total)}
    try:
        n2, total2 = inv.calculate(L)
    except Exception as ex:
        if in_core(case):
            raise Violation("inverted-rejected", f"inverted chop rejected: {type(ex).__name__}: {ex}", **facts) from None
        ctx.label("inverted-rejected-outside-core")
        return
    n, n2 = int(n), int(n2)
    total, total2 = float(total), float(total2)
    facts.update(n_inv=n2, T_inv=total2)
    # the inverted chop must itself obey the law for the mirrored parameters
    mirrored = {}
    for k, v in g.items():
        if k == "start_size":
            mirrored["end_size"] = v
        elif k == "end_size":
            mirrored["start_size"] = v
        elif k == "count":
            mirrored[k] = v
        else:
            mirrored[k] = 1.0 / v
    mpair = [p for p in PARAMS if p in mirrored]
    law_check({"L": L, "given": mirrored, "pair": mpair, "mode": case["mode"]}, n2, total2)

    boundary = False
    if "count" not in g:
        # count is computed: at an exact-integer solution both roundings are legitimate
        if tuple(case["pair"]) == ("c2c_expansion", "total_expansion"):
            x = math.log(g["total_expansion"]) / math.log(g["c2c_expansion"]) if g["c2c_expansion"] != 1 else 0.0
            boundary = abs(x - round(x)) < 1e-6
        else:
            for key in ("start_size", "end_size"):
                if key in g:
                    for m in (n, n - 1, n2, n2 - 1):
                        if m >= 1:
                            if "c2c_expansion" in g:
                                f1 = gp_first_c2c(L, m, g["c2c_expansion"])
                                v = f1 if key == "start_size" else f1 * g["c2c_expansion"] ** (m - 1)
                            else:
                                f1, l1 = gp_first_last(L, m, total)
                                v = f1 if key == "start_size" else l1
                            if rel(v, g[key]) < 1e-5 + tau(m):
                                boundary = True
    if boundary:
        ctx.label("boundary")
        if abs(n - n2) > 1:
            raise Violation("invert-count", f"count {n} -> {n2} after invert()", **facts)
        return
    if n != n2:
        raise Violation("invert-count", f"count {n} -> {n2} after invert()", **facts)
    if rel(total2, 1.0 / total) > 1e-9:
        raise Violation("invert-expansion", f"total {total} -> {total2}, expected {1 / total}", **facts)
    ctx.nt(n >= 2 and total != 1.0)


@st.composite
def invert_case(draw):
    pair = draw(st.sampled_from(PAIRS))
    return draw(consistent_case(pair))


# Grading.inverted / multi-section ---------------------------------------------------------------


@st.composite
def grading_case(draw):
    k = draw(st.integers(1, 4))
    cuts = sorted(draw(st.lists(st.floats(0.05, 0.95), min_size=k - 1, max_size=k - 1, unique=True)))
    bounds = [0.0, *cuts, 1.0]
    ratios = [bounds[i + 1] - bounds[i] for i in range(k)]
    if min(ratios) < 0.02:
        ratios = [1.0 / k] * k
    length = draw(_length)
    chops = []
    for lr in ratios:
        kind = draw(st.sampled_from(["count", "count+c2c", "count+total", "start+c2c", "count+start"]))
        n = draw(st.integers(1, 30))
        r = draw(st.floats(0.8, 1.25))
        c = {"length_ratio": lr}
        if kind == "count":
            c["count"] = n
        elif kind == "count+c2c":
            c.update(count=n, c2c_expansion=r)
        elif kind == "count+total":
            c.update(count=max(n, 2), total_expansion=r ** (max(n, 2) - 1))
        elif kind == "start+c2c":
            c.update(start_size=gp_first_c2c(length * lr, n, r) * 1.01, c2c_expansion=r)
        else:
            c.update(count=max(n, 2), start_size=gp_first_c2c(length * lr, max(n, 2), r))
        chops.append(c)
    return {"L": length, "chops": chops, "peek": [draw(st.booleans()) for _ in chops],
            "reuse_factor": draw(st.sampled_from([1.0, 0.37, 2.5, 7.3]))}


def check_grading(case, ctx: Ctx) -> None:
    L = case["L"]
    g = Grading(L)
    expect = []
    for i, c in enumerate(case["chops"]):
        try:
            g.add_chop(Chop(**c))
        except Exception as ex:
            raise Violation("section-rejected", f"valid section rejected: {type(ex).__name__}: {ex}", chop=c, L=L) from None
        n, t = Chop(**{k: v for k, v in c.items()}).calculate(L * c["length_ratio"])
        expect.append([c["length_ratio"], int(n), float(t)])
        if case.get("peek", [False] * 8)[i]:
            # reading the reversed grading while it is being built must not freeze it
            part = g.inverted
            if part.count != g.count or len(part.specification) != len(g.specification):
                raise Violation("inverted-stale", f"after {i + 1} sections inverted has {part.specification}", L=L, chops=case["chops"])
    spec = [list(map(float, s)) for s in g.specification]
    facts = {"L": L, "chops": case["chops"], "spec": spec}
    if len(spec) != len(expect):
        raise Violation("section-count", "number of sections differs from number of chops", **facts)
    for s, e in zip(spec, expect):
        if s[0] != e[0] or int(s[1]) != e[1] or rel(s[2], e[2]) > 1e-12:
            raise Violation("section-mismatch", f"section {s} vs per-chop result {e}", **facts)
    if g.count != sum(e[1] for e in expect):
        raise Violation("count-sum", f"Grading.count {g.count} != sum of section counts", **facts)
    # the same Chop objects used again on an edge of another length: the user's parameter record must not have
    # been turned into something else by its first use
    L2 = L * case.get("reuse_factor", 1.0)
    if L2 != L:
        objs = [Chop(**c) for c in case["chops"]]
        g1 = Grading(L)
        g2 = Grading(L2)
        fresh = Grading(L2)
        try:
            for o in objs:
                g1.add_chop(o)
            for o in objs:
                g2.add_chop(o)
            for c in case["chops"]:
                fresh.add_chop(Chop(**c))
        except Exception:
            ctx.label("reuse-rejected")
        else:
            a = [[float(x) for x in sec] for sec in g2.specification]
            b = [[float(x) for x in sec] for sec in fresh.specification]
            if len(a) != len(b) or any(int(x[1]) != int(y[1]) or rel(x[2], y[2]) > 1e-12 for x, y in zip(a, b)):
                raise Violation("chop-changed-by-use", f"a Chop used before gives {a} on length {L2}, a fresh one {b}", **facts)
            ctx.label("reused-chop")
    sizes = multi_sizes(L, spec)
    if abs(sum(sizes) - L) > 1e-9 * L:
        raise Violation("sizes-sum", "reference sizes do not add up (length ratios do not sum to 1?)", **facts)
    inv = g.inverted
    ispec = [list(map(float, s)) for s in inv.specification]
    facts["inverted"] = ispec
    if inv.count != g.count:
        raise Violation("inverted-count", f"inverted count {inv.count} != {g.count}", **facts)
    isizes = multi_sizes(L, ispec)
    if len(isizes) != len(sizes) or any(rel(a, b) > 1e-9 for a, b in zip(isizes, reversed(sizes))):
        raise Violation("inverted-sequence", "inverted grading is not the reversed size sequence", **facts)
    # the original must be untouched and double inversion is the identity
    if [list(map(float, s)) for s in g.specification] != spec:
        raise Violation("inverted-mutates", "Grading.inverted modified the original", **facts)
    back = [list(map(float, s)) for s in inv.inverted.specification]
    if len(back) != len(spec) or any(rel(a, b) > 1e-12 for x, y in zip(back, spec) for a, b in zip(x, y)):
        raise Violation("double-inversion", "inverted.inverted differs from the original", **facts)
    ctx.nt(len(spec) >= 2 and any(abs(s[2] - 1) > 1e-6 for s in spec))
    ctx.label(f"sections={len(spec)}")


def check_length_ratio(case, ctx: Ctx) -> None:
    lr = case["length_ratio"]
    g = Grading(case["L"])
    valid = 0 < lr <= 1
    try:
        g.add_chop(Chop(length_ratio=lr, count=case["count"]))
        ok = True
    except Exception:
        ok = False
    if valid and lr < 1e-9:
        # the section's length underflows / is far below any tolerance: either outcome is accepted
        ctx.label("valid-but-vanishing")
        return
    if valid and not ok:
        raise Violation("length-ratio-rejected", f"length_ratio {lr} in (0, 1] rejected", length_ratio=lr)
    if not valid and ok:
        raise Violation("length-ratio-accepted", f"length_ratio {lr} outside (0, 1] accepted", length_ratio=lr)
    ctx.nt(True)
    ctx.label("valid" if valid else "invalid")


# copies handed to other edges / neighbouring blocks ---------------------------------------------------


@st.composite
def copy_case(draw):
    case = draw(invert_case())
    case["preserve"] = draw(st.sampled_from(["c2c_expansion", "c2c_expansion", "start_size", "end_size"]))
    # the edge the copy is used on: the same one, or one of another length (parallel edge of a distorted block)
    case["L2_factor"] = draw(st.sampled_from([1.0, 1.0, 0.8, 1.1, 1.5]))
    return case


def check_copy(case, ctx: Ctx) -> None:
    """Chop.copy_preserving(): what a parallel edge or a neighbouring block gets.  The reversed copy is judged against the
    straight copy on the same length (same count, reciprocal expansion: "reversing a chop"), both against the chop's
    count, and a size / ratio the user named and asked to preserve against the reference progression."""
    g = dict(case["given"])
    L = case["L"]
    pres = case["preserve"]
    pair = "+".join(SHORT[p] for p in case["pair"])
    try:
        base = Chop(**g, preserve=pres)
        n, total = base.calculate(L)
    except Exception:
        ctx.label("rejected")
        return
    n, total = int(n), float(total)
    facts = {"pair": pair, "given": g, "L": L, "preserve": pres, "n": n, "T": total}
    L2 = L * case["L2_factor"]
    facts["L2"] = L2
    try:
        n_s, t_s = base.copy_preserving(False).calculate(L2)
    except Exception:
        ctx.label("copy-rejected")
        return
    n_s, t_s = int(n_s), float(t_s)
    facts.update(n_straight=n_s, T_straight=t_s)
    try:
        n_i, t_i = base.copy_preserving(True).calculate(L2)
    except Exception as ex:
        if in_core(case) and n >= 2 and 0.8 ** n <= t_s <= 1.25 ** n:  # count = 1 with a size: outside the core domain
            raise Violation("reversed-copy-rejected", f"the straight copy is realised on length {L2}, the reversed one is "
                            f"rejected: {type(ex).__name__}: {ex}", **facts) from None
        ctx.label("reversed-copy-rejected-outside-core")
        return
    n_i, t_i = int(n_i), float(t_i)
    facts.update(n_reversed=n_i, T_reversed=t_i)
    if n_s != n or n_i != n:
        raise Violation("copy-count", f"the chop has {n} cells, its copies {n_s} (straight) and {n_i} (reversed)", **facts)
    for t in (t_s, t_i):
        if not math.isfinite(t) or t <= 0:
            raise Violation("expansion-not-finite-positive", f"copy's total expansion {t}", **facts)
    if n < 2:
        ctx.label("single-cell")
        return
    tol = (1e-6 + tau(n)) * n
    if rel(t_i, 1.0 / t_s) > tol:
        raise Violation("copy-reversal", f"straight copy expands by {t_s}, the reversed copy by {t_i}, expected {1 / t_s}", **facts)
    if pres in g:
        # the user named the preserved quantity: it is realised on the copy (count is fixed there), at the other end
        # of the reversed copy
        if pres == "c2c_expansion":
            want = g[pres] ** (n - 1)
            if rel(t_s, want) > tol and abs(g[pres] - 1) > 1e-6:
                raise Violation("copy-preserved-ratio", f"c2c {g[pres]} with {n} cells: total {t_s}, expected {want}", **facts)
        else:
            for which, t in (("straight", t_s), ("reversed", t_i)):
                first, last = gp_first_last(L2, n, t)
                at_start = (pres == "start_size") == (which == "straight")
                got = first if at_start else last
                if rel(got, g[pres]) > tol:
                    raise Violation("copy-preserved-size", f"{pres} {g[pres]} realised as {got} on the {which} copy "
                                    f"({'first' if at_start else 'last'} cell, length {L2})", which=which, **facts)
        ctx.label("preserved-is-named")
    ctx.nt(t_s != 1.0)
    ctx.label("preserve:" + pres, "same-length" if L2 == L else "other-length")


# what is printed for blockMesh -----------------------------------------------------------------------


@st.composite
def description_case(draw):
    """1-4 sections given by count and ratio (closed-form expectation), including strongly contracting / expanding ones"""
    k = draw(st.integers(1, 4))
    cuts = sorted(draw(st.lists(st.floats(0.05, 0.95), min_size=k - 1, max_size=k - 1, unique=True)))
    bounds = [0.0, *cuts, 1.0]
    ratios = [bounds[i + 1] - bounds[i] for i in range(k)]
    if min(ratios) < 0.02:
        ratios = [1.0 / k] * k
    chops = []
    for lr in ratios:
        n = draw(st.one_of(st.integers(1, 12), st.integers(2, 60)))
        r = draw(st.one_of(st.floats(0.8, 1.25), st.floats(0.5, 2.0)))
        c = {"length_ratio": lr, "count": n}
        if draw(st.booleans()) or n == 1:  # a single cell with a total expansion is outside the must-succeed domain
            c["c2c_expansion"] = r
        else:
            c["total_expansion"] = r ** (n - 1)
        chops.append(c)
    return {"L": draw(_length), "chops": chops}


def _parse_description(text: str):
    import re

    text = text.strip()
    if not text.startswith("("):
        return [[1.0, None, float(text)]]
    inner = re.findall(r"\(\s*([^()\s]+)\s+([^()\s]+)\s+([^()\s]+)\s*\)", text)
    return [[float(a), int(b), float(c)] for a, b, c in inner]


def check_description(case, ctx: Ctx) -> None:
    L = case["L"]
    g = Grading(L)
    expect = []
    for c in case["chops"]:
        try:
            g.add_chop(Chop(**c))
        except Exception as ex:
            raise Violation("section-rejected", f"valid section rejected: {type(ex).__name__}: {ex}", chop=c, L=L) from None
        n = c["count"]
        t = c["total_expansion"] if "total_expansion" in c else (c["c2c_expansion"] ** (n - 1) if n > 1 else 1.0)
        expect.append([c["length_ratio"], n, t])
    facts = {"L": L, "chops": case["chops"]}
    for which, grading, want in (("description", g, expect),
                                 ("inverted.description", g.inverted, [[e[0], e[1], 1.0 / e[2]] for e in reversed(expect)])):
        text = grading.description
        try:
            got = _parse_description(text)
        except Exception as ex:  # noqa: BLE001
            raise Violation("description-unparsable", f"{which} = {text!r}: {ex}", which=which, **facts) from None
        if len(got) != len(want):
            raise Violation("description-sections", f"{which} = {text!r}: {len(got)} sections for {len(want)} chops", which=which, **facts)
        for s, e in zip(got, want):
            if not (math.isfinite(s[2]) and s[2] > 0):
                raise Violation("expansion-not-finite-positive", f"{which} = {text!r}", which=which, **facts)
            bad_count = s[1] is not None and s[1] != e[1]
            if bad_count or rel(s[0], e[0]) > 1e-9 or rel(s[2], e[2]) > 1e-9 * max(e[1], 1):
                raise Violation("description-value", f"{which} = {text!r}: section {s}, the chops give {e}", which=which, **facts)
    small = min(min(e[2], 1.0 / e[2]) for e in expect)
    ctx.nt(len(expect) >= 2 and small < 1.0)
    ctx.label(f"sections={len(expect)}", "total<1e-3" if small < 1e-3 else ("total<0.1" if small < 0.1 else "mild"))


_lr = st.one_of(
    st.sampled_from([-0.1, -1e-9, 0.0, 1e-6, 1e-3, 0.5, 1.0 - 1e-12, 1.0, 1.0 + 1e-9, 1.0 + 1e-6, 1.5]),
    st.floats(-0.5, 1.5),
)

CELLS = []
for _pair in PAIRS:
    _name = "+".join(SHORT[p] for p in _pair)
    CELLS.append(Cell(f"C03/consistent/{_name}", consistent_case(_pair), check_pair, 500, 30000,
                      f"true progression (L, n<=200, r) -> give {_name}; law + must-succeed in core domain"))
    CELLS.append(Cell(f"C03/free/{_name}", free_case(_pair), check_pair, 300, 20000,
                      f"independent draws of {_name}; rejection accepted, returned result must obey the law"))
CELLS.append(Cell("C03/invert", invert_case(), check_invert, 1500, 100000,
                  "Chop.invert(): same count (unless at an exact-integer boundary: within 1), reciprocal expansion, "
                  "inverted chop obeys the law for the mirrored parameters"))
CELLS.append(Cell("C03/grading-multi-inverted", grading_case(), check_grading, 600, 40000,
                  "1-4 sections; sections equal per-chop results; Grading.inverted is the reversed size sequence; "
                  "non-trivial: >= 2 sections, one graded"))
CELLS.append(Cell("C03/copy-preserving", copy_case(), check_copy, 1500, 60000,
                  "Chop.copy_preserving(inverted) on the same / another edge length: same count, (reciprocal) expansion, "
                  "preserved size at the right end under the reference progression"))
CELLS.append(Cell("C03/description", description_case(), check_description, 800, 30000,
                  "Grading.description / .inverted.description (the text written for blockMesh) of 1-4 count+ratio sections, "
                  "ratios in [0.5, 2] with up to 60 cells: every printed count and expansion equals the closed form"))
CELLS.append(Cell("C03/length-ratio",st.fixed_dictionaries({"length_ratio": _lr, "L": _length, "count": st.integers(1, 20)}),
                  check_length_ratio, 300, 5000, "length_ratio on both sides of 0 and 1: accepted iff in (0, 1]"))

# thorough tier: coverage-guided campaigns (atheris / libFuzzer driving the same strategies and oracles), so that
# branch coverage of grading/relations.py steers generation towards the |r - 1| <= TOL and exact-integer switches
FUZZ_CELLS = [(c.id, 30000) for c in CELLS if c.id.startswith(("C03/free/", "C03/consistent/"))] + [("C03/invert", 30000)]
